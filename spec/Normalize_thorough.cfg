SPECIFICATION Spec
CONSTANTS
  N = 3
  MaxK = 3
  W = 2
  R = 4
INVARIANTS NormalFormCorrect NormalFormShape EmitCall
CHECK_DEADLOCK FALSE
