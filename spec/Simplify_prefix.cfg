SPECIFICATION Spec
CONSTANTS
  L = 4
  Repass = "prefix"
INVARIANTS Fixpoint
CHECK_DEADLOCK FALSE
