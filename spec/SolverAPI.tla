------------------------------ MODULE SolverAPI ------------------------------
(***************************************************************************)
(* What a solver object means to its caller (C01, C09, C10): the abstract   *)
(* machine behind APITrace.  State: the declared variables n, the models    *)
(* `mods` of everything added so far, the current assumptions `asm`.  One    *)
(* action per public call; the reply each call may give is a function of    *)
(* that state only:                                                         *)
(*                                                                          *)
(*   Solve          Sat iff some m in mods satisfies asm; the model is any  *)
(*                  such m (search order is free); never Indet              *)
(*   Append(c)      n' = max(n, vars(c)); mods' = models of mods' extension *)
(*                  that satisfy c (new variables are free)                 *)
(*   Assume(ls)     asm' = ls: assumptions are replaced, never accumulated  *)
(*                                                                          *)
(* TLC enumerates every history of length D over a small universe of base   *)
(* problems, clauses to append and assumption lists (spec -> code: each     *)
(* history is replayed on one live solver of the real code), and checks the *)
(* design-level laws of the machine in every state.                         *)
(***************************************************************************)
EXTENDS Logic, TLC, Json, CSV, IOUtils

CONSTANT D          \* length of the histories
VARIABLES base, hist, n, mods, asm
vars == <<base, hist, n, mods, asm>>

(* the universe: base problems (clause sequences), clauses that can be appended (a new       *)
(* variable, a repeated literal, a complementary pair, units), assumption lists (empty,      *)
(* repeated, complementary, contradicting facts)                                             *)
Bases   == { <<>>, << <<1>> >>, << <<1, 2>> >>, << <<-1, 2>>, <<1>> >>, << <<-1, -2>>, <<1, 2>> >>,
             << <<1, 2>>, <<-1, 2>>, <<1, -2>> >> }
Clauses == { <<1>>, <<-1>>, <<2>>, <<-2>>, <<1, 2>>, <<-1, -2>>, <<1, -2>>,
             <<3>>, <<-3, 1>>, <<-3, -1>>, <<2, 2>>, <<1, -1>>, <<3, -2, 3>> }
Asms    == { <<>>, <<1>>, <<-1>>, <<-2>>, <<2, -2>>, <<1, 2>>, <<2, 2>>, <<-1, -2>> }
Ops == [op : {"solve"}] \cup [op : {"append"}, c : Clauses] \cup [op : {"assume"}, ls : Asms]

BaseN(b) == Max2(2, MaxVar(IF b = <<>> THEN <<>> ELSE b[1]))
Init == /\ base \in Bases /\ hist = <<>>
        /\ n = 2 /\ mods = ClauseModels(2, base) /\ asm = <<>>

Solve == /\ hist' = Append(hist, [op |-> "solve"]) /\ UNCHANGED <<base, n, mods, asm>>
AppendC(c) == /\ hist' = Append(hist, [op |-> "append", c |-> c])
              /\ n' = Max2(n, MaxVar(c))
              /\ mods' = {m \in Extend(mods, n, Max2(n, MaxVar(c))) : SatCl(m, c)}
              /\ UNCHANGED <<base, asm>>
Assume(ls) == /\ hist' = Append(hist, [op |-> "assume", ls |-> ls])
              /\ asm' = ls /\ UNCHANGED <<base, n, mods>>

Next == /\ Len(hist) < D
        /\ \/ Solve
           \/ \E c \in Clauses : AppendC(c)
           \/ \E ls \in Asms : Assume(ls)
Spec == Init /\ [][Next]_vars

(* ---- the contract: replies allowed in a state ---------------------------- *)
UnderAsm == {m \in mods : SatLits(m, asm)}
SolveStatus == IF UnderAsm = {} THEN "UNSAT" ELSE "SAT"
SolveModels == UnderAsm

(* ---- design-level laws ---------------------------------------------------- *)
(* adding constraints never adds models: once unsatisfiable, always unsatisfiable (C09) *)
Monotone == [][Cardinality(mods') <= Cardinality(mods) * (IF n' > n THEN 2 ELSE 1)]_vars
Absorbing == [][mods = {} => mods' = {}]_vars
(* assumptions of earlier rounds leave no trace in the state (C10) *)
AsmReplaced == [][\A ls \in Asms : (hist' = Append(hist, [op |-> "assume", ls |-> ls])) => asm' = ls]_vars
(* mods is always exactly the models of base + appended clauses over 1..n *)
RECURSIVE AllClauses(_, _)
AllClauses(h, i) == IF i > Len(h) THEN <<>>
                    ELSE (IF h[i].op = "append" THEN <<h[i].c>> ELSE <<>>) \o AllClauses(h, i + 1)
ModsExact == mods = ClauseModels(n, base \o AllClauses(hist, 1))

EmitFile == IF "VERIF_EMIT" \in DOMAIN IOEnv THEN IOEnv.VERIF_EMIT ELSE "hist_emit.ndjson"
EmitHist == (Len(hist) = D) => CSVWrite("%1$s", <<ToJson([base |-> base, hist |-> hist])>>, EmitFile)
=============================================================================
