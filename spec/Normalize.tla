------------------------------ MODULE Normalize ------------------------------
(***************************************************************************)
(* The public constraint constructors of package solver (pb.go, card.go)   *)
(* and their normal form (C02).  A caller writes  Sum w[i]*lits[i] REL rhs  *)
(* with integer coefficients of either sign; the solver core only knows     *)
(* Sum w'[i]*lits'[i] >= d with positive coefficients.  The intended        *)
(* normalisation (GtEq, LtEq, Eq, AtMost, AtLeast, AtMost1, Exactly1) is    *)
(* transcribed here:                                                        *)
(*                                                                          *)
(*   w*l with w < 0      becomes |w| * -l  and the degree grows by |w|      *)
(*   w = 0               the term is dropped                                *)
(*   <= k                both sides are negated:  Sum -w*l >= -k            *)
(*   = k                 the conjunction of >= k and <= k                   *)
(*   d <= 0              trivially true, dropped;  d > Sum w' : impossible  *)
(*                                                                          *)
(* Theorem checked by TLC for every constructor call in the scope (initial  *)
(* states): the normal form has exactly the models of the constraint as     *)
(* written.  Every call of the scope is also emitted and handed to the real *)
(* constructors and front ends (spec -> code).                              *)
(***************************************************************************)
EXTENDS Logic, TLC, Json, CSV, IOUtils

CONSTANTS N, MaxK, W, R     \* variables, terms per constraint, |coefficient| <= W, |rhs| <= R
VARIABLE call
vars == <<call>>

Kinds == {"gteq", "lteq", "eq", "atleast", "atmost", "atmost1", "exactly1", "clause"}
(* literal lists: variables 1..k in order, any signs *)
LitLists == UNION {{[i \in 1..k |-> IF s[i] THEN i ELSE -i] : s \in [1..k -> BOOLEAN]} : k \in 1..MaxK}
Weights(k) == [1..k -> (-W)..W]
Calls == {[k |-> kind, lits |-> ls, w |-> ws, rhs |-> r] :
            kind \in {"gteq", "lteq", "eq"}, ls \in LitLists, ws \in UNION {Weights(k) : k \in 1..MaxK}, r \in (-R)..R}
CallsOK == {c \in Calls : Len(c.w) = Len(c.lits)}
CardCalls == {[k |-> kind, lits |-> ls, w |-> Ones(Len(ls)), rhs |-> r] :
                kind \in {"atleast", "atmost"}, ls \in LitLists, r \in (-1)..(MaxK + 1)}
             \cup {[k |-> kind, lits |-> ls, w |-> Ones(Len(ls)), rhs |-> 1] : kind \in {"atmost1", "exactly1", "clause"}, ls \in LitLists}

Init == call \in CallsOK \cup CardCalls
Next == UNCHANGED call
Spec == Init /\ [][Next]_vars

(* ---- the intended normal form: a set (conjunction) of [lits, w, d] with w > 0, d >= 1,  *)
(* or the marker "unsat"                                                                    *)
RECURSIVE NegSum(_, _)
NegSum(w, i) == IF i = 0 THEN 0 ELSE NegSum(w, i - 1) + (IF w[i] < 0 THEN -w[i] ELSE 0)
Idx(w) == {i \in 1..Len(w) : w[i] # 0}
(* Sum w*l >= r *)
GE(lits, w, r) ==
  LET seqIdx == SelectSeq([i \in 1..Len(w) |-> i], LAMBDA i : w[i] # 0)
      d == r + NegSum(w, Len(w))
  IN [lits |-> [j \in 1..Len(seqIdx) |-> IF w[seqIdx[j]] < 0 THEN -lits[seqIdx[j]] ELSE lits[seqIdx[j]]],
      w |-> [j \in 1..Len(seqIdx) |-> Abs(w[seqIdx[j]])],
      d |-> d]
Neg(w) == [i \in 1..Len(w) |-> -w[i]]
NormalForm(c) ==
  CASE c.k \in {"gteq", "atleast", "clause"} -> {GE(c.lits, c.w, IF c.k = "clause" THEN 1 ELSE c.rhs)}
    [] c.k \in {"lteq", "atmost", "atmost1"} -> {GE(c.lits, Neg(c.w), -(IF c.k = "atmost1" THEN 1 ELSE c.rhs))}
    [] c.k \in {"eq", "exactly1"} -> {GE(c.lits, c.w, IF c.k = "exactly1" THEN 1 ELSE c.rhs),
                                       GE(c.lits, Neg(c.w), -(IF c.k = "exactly1" THEN 1 ELSE c.rhs))}

NFModels(nf) == {a \in Assignments(N) : \A g \in nf : g.d <= 0 \/ SatC(a, NormC(g))}
(* the theorem *)
NormalFormCorrect == NFModels(NormalForm(call)) = Models(N, <<AsWritten(call)>>)
(* coefficients of the normal form are positive *)
NormalFormShape == \A g \in NormalForm(call) : \A i \in 1..Len(g.w) : g.w[i] > 0

EmitFile == IF "VERIF_EMIT" \in DOMAIN IOEnv THEN IOEnv.VERIF_EMIT ELSE "norm_emit.ndjson"
EmitCall == CSVWrite("%1$s", <<ToJson(call)>>, EmitFile)
=============================================================================
