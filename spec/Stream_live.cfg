SPECIFICATION FairSpec
CONSTANTS
  MaxM = 2
  MaxCap = 1
PROPERTY Live
CHECK_DEADLOCK FALSE
