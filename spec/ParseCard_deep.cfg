SPECIFICATION Spec
CONSTANTS
  NV = 3
  MaxK = 2
  L = 3
  Repass = "fixpoint"
  TrueLit = "remove"
INVARIANTS ModelsPreserved Fixpoint StatusSat EmitInit
CHECK_DEADLOCK FALSE
