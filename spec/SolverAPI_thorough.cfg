SPECIFICATION Spec
CONSTANT D = 4
INVARIANTS ModsExact EmitHist
PROPERTIES Monotone Absorbing AsmReplaced
CHECK_DEADLOCK FALSE
