SPECIFICATION Spec
CONSTANTS
  N = 3
  W = 2
  NegWeights = FALSE
INVARIANTS BoundExact Decreasing StreamValid Optimal EmitInit
CHECK_DEADLOCK FALSE
