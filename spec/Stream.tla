-------------------------------- MODULE Stream --------------------------------
(***************************************************************************)
(* The result-stream protocol (property C20) at the granularity of the      *)
(* scheduler gates of the code (build tag verif):                           *)
(*                                                                          *)
(*   producer   solver.Optimal / Enumerate with a channel: for each of the  *)
(*              M results  gate "send" ; send  and finally  gate "close" ;  *)
(*              close (deferred) ; return                                   *)
(*   forwarder  maxsat.Solver.Optimal (Forward = TRUE): receives from the   *)
(*              producer on an unbuffered inner channel, then               *)
(*              gate "send" ; send to the caller's channel; when the inner  *)
(*              channel is closed  gate "close" ; close ; return the last   *)
(*   consumer   the caller: receives from the channel of capacity Cap       *)
(*              until it sees it closed                                     *)
(*                                                                          *)
(* A token releases one process for one step:  "p" lets the producer pass   *)
(* the gate it waits at, "f" the forwarder, "c" makes the consumer start    *)
(* one receive.  Go's channel rules decide what happens next (hand-off to a *)
(* waiting receiver, buffering, blocking, waking a blocked sender, close    *)
(* waking a blocked receiver).  Between two tokens the system runs until    *)
(* every process is at a gate, blocked or done, so the state after a token  *)
(* is a function Step(st, tok) of the state before: every interleaving at   *)
(* this granularity is a token sequence, TLC enumerates them all, and each   *)
(* maximal one is replayed on the real code through the gates.              *)
(***************************************************************************)
EXTENDS Integers, Sequences, TLC, Json, CSV, IOUtils

CONSTANTS MaxM, MaxCap    \* scope: 1..MaxM results, channel capacity 0..MaxCap

VARIABLES st, sched, cfg
vars == <<st, sched, cfg>>
M == cfg.m              \* number of results the producer delivers (>= 1: an Unsat answer is one result)
Cap == cfg.cap          \* capacity of the caller's channel
Forward == cfg.fwd      \* TRUE: through the forwarding goroutine of package maxsat

(* st.p   producer:  [s |-> "gate" | "sending" | "done", k |-> index of the result / M+1 for the close gate] *)
(* st.f   forwarder: [s |-> "idle" | "recving" | "gate" | "sending" | "closegate" | "done", v |-> value held] *)
(* st.buf caller's channel buffer;  st.closed caller's channel closed;  st.inClosed inner channel closed   *)
(* st.cw  consumer blocked in a receive;  st.saw  consumer has seen the close;  st.recv received values    *)
(* st.ret value returned by the call (0 = not returned yet);  st.panic  send on closed / double close      *)
Init0 == [p |-> [s |-> "gate", k |-> 1],
          f |-> [s |-> IF Forward THEN "recving" ELSE "idle", v |-> 0],
          buf |-> <<>>, closed |-> FALSE, inClosed |-> FALSE,
          cw |-> FALSE, saw |-> FALSE, recv |-> <<>>, ret |-> 0, panic |-> FALSE]

(* ---- sending a value on the caller's channel by process who ("p" or "f") --------------------- *)
(* returns the state after the send attempt: completed (hand-off or buffered) or blocked          *)
AfterSenderDone(s, who) ==
  IF who = "p" THEN [s EXCEPT !.p = [s |-> "gate", k |-> s.p.k + 1]]
  ELSE (* the forwarder goes back to receiving on the inner channel *)
       IF s.p.s = "sending" /\ Forward        \* the producer is blocked on the inner channel: hand-off
       THEN [s EXCEPT !.f = [s |-> "gate", v |-> s.p.k], !.p = [s |-> "gate", k |-> s.p.k + 1]]
       ELSE IF s.inClosed THEN [s EXCEPT !.f = [s |-> "closegate", v |-> s.f.v]]
       ELSE [s EXCEPT !.f = [s |-> "recving", v |-> s.f.v]]

SendOut(s, who, val) ==
  IF s.closed THEN [s EXCEPT !.panic = TRUE]
  ELSE IF s.cw THEN AfterSenderDone([s EXCEPT !.recv = Append(s.recv, val), !.cw = FALSE], who)
  ELSE IF Len(s.buf) < Cap THEN AfterSenderDone([s EXCEPT !.buf = Append(s.buf, val)], who)
  ELSE IF who = "p" THEN [s EXCEPT !.p = [s |-> "sending", k |-> s.p.k]]
  ELSE [s EXCEPT !.f = [s |-> "sending", v |-> val]]

CloseOut(s, who) ==
  LET s1 == IF s.closed THEN [s EXCEPT !.panic = TRUE] ELSE [s EXCEPT !.closed = TRUE]
      s2 == IF s1.cw /\ s1.buf = <<>> THEN [s1 EXCEPT !.cw = FALSE, !.saw = TRUE] ELSE s1
  IN IF who = "p" THEN [s2 EXCEPT !.p = [s |-> "done", k |-> s.p.k], !.ret = M]
     ELSE [s2 EXCEPT !.f = [s |-> "done", v |-> s.f.v], !.ret = s.f.v]

(* ---- tokens -------------------------------------------------------------------------------- *)
Enabled(s, tok) ==
  CASE tok = "p" -> s.p.s = "gate"
    [] tok = "f" -> s.f.s \in {"gate", "closegate"}
    [] tok = "c" -> ~s.cw /\ ~s.saw

StepP(s) ==
  IF s.p.k <= M
  THEN IF ~Forward THEN SendOut(s, "p", s.p.k)
       ELSE (* unbuffered inner channel: hand-off if the forwarder is receiving, else block *)
            IF s.f.s = "recving" THEN [s EXCEPT !.f = [s |-> "gate", v |-> s.p.k], !.p = [s |-> "gate", k |-> s.p.k + 1]]
            ELSE [s EXCEPT !.p = [s |-> "sending", k |-> s.p.k]]
  ELSE (* the deferred close *)
       IF ~Forward THEN CloseOut(s, "p")
       ELSE LET s1 == [s EXCEPT !.inClosed = TRUE, !.p = [s |-> "done", k |-> s.p.k]]
            IN IF s1.f.s = "recving" THEN [s1 EXCEPT !.f = [s |-> "closegate", v |-> s.f.v]] ELSE s1

StepF(s) == IF s.f.s = "gate" THEN SendOut(s, "f", s.f.v) ELSE CloseOut(s, "f")

StepC(s) ==
  IF s.buf # <<>>
  THEN LET s1 == [s EXCEPT !.recv = Append(s.recv, Head(s.buf)), !.buf = Tail(s.buf)]
       IN (* a sender blocked on the full buffer can now complete *)
          IF ~Forward /\ s1.p.s = "sending" THEN AfterSenderDone([s1 EXCEPT !.buf = Append(s1.buf, s1.p.k)], "p")
          ELSE IF Forward /\ s1.f.s = "sending" THEN AfterSenderDone([s1 EXCEPT !.buf = Append(s1.buf, s1.f.v)], "f")
          ELSE s1
  ELSE IF ~Forward /\ s.p.s = "sending" THEN AfterSenderDone([s EXCEPT !.recv = Append(s.recv, s.p.k)], "p")
  ELSE IF Forward /\ s.f.s = "sending" THEN AfterSenderDone([s EXCEPT !.recv = Append(s.recv, s.f.v)], "f")
  ELSE IF s.closed THEN [s EXCEPT !.saw = TRUE]
  ELSE [s EXCEPT !.cw = TRUE]

Step(s, tok) == CASE tok = "p" -> StepP(s) [] tok = "f" -> StepF(s) [] tok = "c" -> StepC(s)

Obs(s) == [nrecv |-> Len(s.recv), saw |-> s.saw, ret |-> s.ret, panic |-> s.panic]

Init == /\ cfg \in [m : 1..MaxM, cap : 0..MaxCap, fwd : BOOLEAN]
        /\ st = Init0 /\ sched = <<>>
Tokens == IF Forward THEN {"p", "f", "c"} ELSE {"p", "c"}
Next == \E tok \in Tokens : /\ Enabled(st, tok) /\ ~st.panic
                            /\ st' = Step(st, tok)
                            /\ sched' = Append(sched, [tok |-> tok, obs |-> Obs(Step(st, tok))])
                            /\ UNCHANGED cfg
Spec == Init /\ [][Next]_vars
FairSpec == Spec /\ WF_vars(Next)

(* ---- properties ---------------------------------------------------------------------------- *)
AllDone == st.saw /\ st.ret # 0
NoPanic == ~st.panic
PrefixOK == \E k \in 0..M : st.recv = [i \in 1..k |-> i]
(* the channel is not closed before the last result has been sent *)
NotClosedEarly == st.closed => Len(st.recv) + Len(st.buf) = M
AtEnd == AllDone => st.recv = [i \in 1..M |-> i] /\ st.ret = M /\ st.closed /\ st.buf = <<>>
(* deadlock freedom: as long as the call has not completed and been observed, some token is enabled *)
NoDeadlock == ~AllDone => \E tok \in Tokens : Enabled(st, tok)
Live == <>AllDone

EmitFile == IF "VERIF_EMIT" \in DOMAIN IOEnv THEN IOEnv.VERIF_EMIT ELSE "stream_emit.ndjson"
EmitSched == AllDone => CSVWrite("%1$s", <<ToJson([m |-> M, cap |-> Cap, forward |-> Forward, sched |-> sched])>>, EmitFile)
=============================================================================
