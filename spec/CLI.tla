--------------------------------- MODULE CLI ---------------------------------
(***************************************************************************)
(* The command line tool (main.go, property C19) as a decision table: what  *)
(* a run must do as a function of the suffix of the file, of what is in     *)
(* the file, and of the SET of flags given (any combination).               *)
(*                                                                          *)
(*   Mode     which pipeline the flags and the suffix select: -mus wins     *)
(*            over everything; a .bf file is solved as a formula and a      *)
(*            .wcnf file as a MaxSAT instance whatever the other flags;     *)
(*            for .cnf / .opb -count wins over -certified and -cp           *)
(*   Expect   what the property says about the run:                         *)
(*              error        unreadable, malformed or unknown file:         *)
(*                           non-zero exit status and no answer line        *)
(*              decide       s SATISFIABLE + v line / s UNSATISFIABLE       *)
(*              optimise     o lines, s OPTIMUM FOUND + v / s UNSATISFIABLE *)
(*              maxsat       the same for a .wcnf file                      *)
(*              count        the number of models                           *)
(*              mus          a minimal unsatisfiable subset of a .cnf file  *)
(*              bf           SATISFIABLE + bindings / UNSATISFIABLE         *)
(*              unspecified  -mus on a well-formed file that is not a CNF   *)
(*   Certificate  -certified is judged (every line a RUP consequence, a     *)
(*            refutation on Unsat) when the run decides a .cnf file         *)
(*                                                                          *)
(* -verbose and -cp never change what must be printed as answer lines.      *)
(* CLIGen.tla enumerates every combination; CLITrace.tla judges each run    *)
(* of the real executable by Expect of its case.                            *)
(***************************************************************************)
EXTENDS FiniteSets

Suffixes == {"cnf", "opb", "wcnf", "bf", "txt"}
FileStates == {"missing", "malformed", "wellformed"}
AllFlags == {"-verbose", "-certified", "-mus", "-count", "-cp"}

Mode(sfx, fl) ==
  IF "-mus" \in fl THEN "mus"
  ELSE IF sfx = "bf" THEN "bf"
  ELSE IF sfx = "wcnf" THEN "maxsat"
  ELSE IF sfx \in {"cnf", "opb"}
       THEN (IF "-count" \in fl THEN "count" ELSE IF sfx = "cnf" THEN "decide" ELSE "optimise")
  ELSE "none"

Expect(sfx, st, fl) ==
  IF st # "wellformed" \/ sfx = "txt" THEN "error"
  ELSE IF Mode(sfx, fl) = "mus" /\ sfx # "cnf" THEN "unspecified"
  ELSE Mode(sfx, fl)

Certificate(sfx, fl) == "-certified" \in fl /\ Mode(sfx, fl) = "decide"

Outcomes == {"error", "decide", "optimise", "maxsat", "count", "mus", "bf", "unspecified"}
=============================================================================
