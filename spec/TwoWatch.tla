------------------------------ MODULE TwoWatch ------------------------------
(***************************************************************************)
(* The two-watched-literal scheme for ONE clause added while the solver is  *)
(* at a non-zero decision level: the blocking clause of model enumeration   *)
(* (solver.go Enumerate / CountModels: "block the decisions of the model    *)
(* just found, backtrack one level, flip the last decision").  Design-      *)
(* level companion of property C05: it shows WHY the clause must be watched *)
(* on its two highest-level literals.                                       *)
(*                                                                          *)
(* The clause is C = (-d1 -d2 ... -dK) over decisions d1@1 .. dK@K.  The    *)
(* state is taken right after the code backtracked to level K-1 and         *)
(* asserted -dK there.  From then on anything a CDCL search can do to the   *)
(* trail is allowed: decide, process the watch lists (visit), backtrack to  *)
(* any level.                                                               *)
(*                                                                          *)
(*   Scheme = "lowest"   the two lowest-level literals are watched (what    *)
(*                       the code did before commit 958096d: the literals   *)
(*                       were listed by increasing level and positions 0,1  *)
(*                       are watched) -> Complete is VIOLATED               *)
(*   Scheme = "highest"  the two highest-level literals are watched (the    *)
(*                       repaired code) -> Complete holds                   *)
(***************************************************************************)
EXTENDS Integers, Sequences, FiniteSets, TLC

CONSTANTS K,        \* number of decisions in the model that was blocked (clause length)
          Scheme    \* "lowest" or "highest"

Vars == 1..K
C == [i \in 1..K |-> -i]             \* the blocking clause, literal i is -d_i

VARIABLES trail,    \* sequence of [v, val, lvl]
          qhead,    \* next trail position whose watch lists have to be visited
          w,        \* the two watched positions of C
          confl     \* the clause was found falsified
vars == <<trail, qhead, w, confl>>

Assigned(v) == \E i \in 1..Len(trail) : trail[i].v = v
ValOf(v) == (CHOOSE i \in 1..Len(trail) : trail[i].v = v)
LitTrue(l) == \E i \in 1..Len(trail) : trail[i].v = (IF l > 0 THEN l ELSE -l) /\ trail[i].val = (l > 0)
LitFalse(l) == \E i \in 1..Len(trail) : trail[i].v = (IF l > 0 THEN l ELSE -l) /\ trail[i].val = (l < 0)
CurLvl == IF trail = <<>> THEN 0 ELSE trail[Len(trail)].lvl

(* after "flip the last decision one level lower": d1..d(K-1) true at their levels, dK false at level K-1 *)
Init == /\ trail = [i \in 1..K |-> IF i < K THEN [v |-> i, val |-> TRUE, lvl |-> i]
                                   ELSE [v |-> K, val |-> FALSE, lvl |-> K - 1]]
        /\ qhead = K + 1 /\ confl = FALSE
        /\ w = IF Scheme = "lowest" THEN {1, 2} ELSE {K, K - 1}

Quiescent == qhead > Len(trail) /\ ~confl

Decide == /\ Quiescent
          /\ \E v \in Vars, b \in BOOLEAN : ~Assigned(v)
               /\ trail' = Append(trail, [v |-> v, val |-> b, lvl |-> CurLvl + 1])
          /\ UNCHANGED <<qhead, w, confl>>

(* visit the watch list of the literal falsified by trail[qhead] (simplifyPropClauses) *)
Process == /\ qhead <= Len(trail) /\ ~confl
           /\ LET e == trail[qhead]
                  falseLit == IF e.val THEN -e.v ELSE e.v
                  hit == {p \in w : C[p] = falseLit}
              IN IF hit = {} THEN UNCHANGED <<trail, w, confl>>
                 ELSE LET p == CHOOSE p \in hit : TRUE
                          other == CHOOSE q \in w : q # p
                          repl == {q \in (1..K) \ w : ~LitFalse(C[q])}
                      IN IF LitTrue(C[other]) THEN UNCHANGED <<trail, w, confl>>
                         ELSE IF repl # {} THEN /\ w' = (w \ {p}) \cup {CHOOSE q \in repl : TRUE}
                                                /\ UNCHANGED <<trail, confl>>
                         ELSE IF LitFalse(C[other]) THEN confl' = TRUE /\ UNCHANGED <<trail, w>>
                         ELSE /\ trail' = Append(trail, [v |-> -C[other], val |-> FALSE, lvl |-> CurLvl])
                              /\ UNCHANGED <<w, confl>>
           /\ qhead' = qhead + 1

Backtrack == /\ (Quiescent \/ confl)
             /\ \E L \in 0..(K - 1) : L < CurLvl
                  /\ trail' = SelectSeq(trail, LAMBDA e : e.lvl <= L)
                  /\ qhead' = Len(SelectSeq(trail, LAMBDA e : e.lvl <= L)) + 1
             /\ confl' = FALSE /\ UNCHANGED w

Next == Decide \/ Process \/ Backtrack
Spec == Init /\ [][Next]_vars

(* propagation completeness: when nothing is left to visit, the clause is satisfied or has at   *)
(* least two literals that are not false (so it is neither unit nor falsified unnoticed)        *)
Satisfied == \E p \in 1..K : LitTrue(C[p])
NbNotFalse == Cardinality({p \in 1..K : ~LitFalse(C[p])})
Complete == Quiescent => (Satisfied \/ NbNotFalse >= 2)
=============================================================================
