--------------------------------- MODULE AMO ---------------------------------
(***************************************************************************)
(* At-most-one detection (solver/problem.go DetectAtMostOne, property C15). *)
(* A set of literals L = {l1..lk} is pairwise exclusive in a problem when   *)
(* every pair (-li v -lj) ... in the solver's representation: when every    *)
(* binary clause (li v lj), i < j, over the literals x1..xk is present,     *)
(* "at most one of x1..xk is FALSE", i.e. at least k-1 of them are true.    *)
(*                                                                          *)
(* Design: replacing the clique's binary clauses by the cardinality         *)
(* constraint  x1 + .. + xk >= k-1  preserves the models; removing binary   *)
(* clauses WITHOUT adding the constraint, or adding a constraint over an    *)
(* incomplete clique, does not.  TLC checks the replacement theorem for     *)
(* every set of binary clauses over N variables and every clique in it, and *)
(* emits every such set for replay through the real DetectAtMostOne.        *)
(***************************************************************************)
EXTENDS Logic, TLC, Json, CSV, IOUtils

CONSTANT N
VARIABLE F           \* a set of binary clauses {l1, l2} over distinct variables
vars == <<F>>

Lit == {v : v \in 1..N} \cup {-v : v \in 1..N}
Bin == {c \in SUBSET Lit : Cardinality(c) = 2 /\ \A l \in c : -l \notin c}
Init == F \in SUBSET Bin
Next == UNCHANGED F
Spec == Init /\ [][Next]_vars

SatSet(a, c) == \E l \in c : LitTrue(a, l)
ModelsOfSets(S) == {a \in Assignments(N) : \A c \in S : SatSet(a, c)}
(* cliques: sets X of at least 3 literals over distinct variables, all pairs present *)
Cliques == {X \in SUBSET Lit : /\ Cardinality(X) >= 3
                               /\ \A l \in X : -l \notin X
                               /\ \A l1, l2 \in X : l1 # l2 => {l1, l2} \in F}
AtLeastKm1(a, X) == Cardinality({l \in X : LitTrue(a, l)}) >= Cardinality(X) - 1
(* the replacement theorem, for every clique of F *)
ReplacementSound ==
  \A X \in Cliques :
     LET pairs == {{l1, l2} : l1, l2 \in X} \cap Bin
     IN {a \in ModelsOfSets(F \ pairs) : AtLeastKm1(a, X)} = ModelsOfSets(F)

EmitFile == IF "VERIF_EMIT" \in DOMAIN IOEnv THEN IOEnv.VERIF_EMIT ELSE "amo_emit.ndjson"
EmitF == CSVWrite("%1$s", <<ToJson([n |-> N, F |-> F])>>, EmitFile)
=============================================================================
