--------------------------------- MODULE MUS ---------------------------------
(***************************************************************************)
(* MUS extraction (explain/mus.go, property C07) over an abstract oracle.   *)
(* The input F is a SEQUENCE of clauses (a multiset: repeated clauses are   *)
(* different members).  A candidate is a set of indices into F.             *)
(*                                                                          *)
(*   Start      UnsatSubset: the oracle returns ANY unsatisfiable subset    *)
(*              (the clauses tagged while checking the solver's certificate)*)
(*   deletion   MUSDeletion: for each member in turn, drop it if the rest    *)
(*              stays unsatisfiable (one assumption-based Solve per member)  *)
(*   insertion  MUSInsertion: add clauses to a live solver until Unsat; the  *)
(*              clause added last is critical, keep it and start again on    *)
(*              the clauses before it                                        *)
(*   maxsat     MUSMaxSat: the clauses falsified by ANY optimal model become *)
(*              hard, until the hard part is unsatisfiable; Minimise = TRUE  *)
(*              then runs the deletion algorithm on the result (the code     *)
(*              since commit 2fc13c3), FALSE returns it as it is             *)
(*                                                                          *)
(* Property at termination: the result is a minimal unsatisfiable           *)
(* sub-multiset of F.  Checked for every F over N variables with at most    *)
(* MaxLen clauses from the clause universe, every oracle answer, every      *)
(* algorithm.  Satisfiable inputs terminate with an error.                  *)
(***************************************************************************)
EXTENDS Logic, TLC, Json, CSV, IOUtils

CONSTANTS N, MaxLen, Minimise
ClauseUniv == {<<1>>, <<-1>>, <<2>>, <<-2>>, <<1, 2>>, <<-1, 2>>, <<1, -2>>, <<-1, -2>>}
Inputs == UNION {[1..k -> ClauseUniv] : k \in 0..MaxLen}

VARIABLES F, alg, phase, cand, todo, mus, res
vars == <<F, alg, phase, cand, todo, mus, res>>

Sub(S) == [j \in 1..Cardinality(S) |-> F[CHOOSE i \in S : Cardinality({x \in S : x < i}) = j - 1]]
UnsatIdx(S) == ClauseModels(N, Sub(S)) = {}
All == 1..Len(F)

Init == /\ F \in Inputs /\ alg \in {"deletion", "insertion", "maxsat"}
        /\ phase = "start" /\ cand = {} /\ todo = <<>> /\ mus = {} /\ res = "none"

IdxSeq(S) == [j \in 1..Cardinality(S) |-> CHOOSE i \in S : Cardinality({x \in S : x < i}) = j - 1]

(* UnsatSubset: error on a satisfiable problem, otherwise any unsatisfiable subset *)
Start == /\ phase = "start"
         /\ IF ~UnsatIdx(All) THEN /\ res' = "error" /\ phase' = "done" /\ UNCHANGED <<cand, todo, mus>>
            ELSE IF alg = "maxsat" THEN /\ phase' = "collect" /\ UNCHANGED <<cand, todo, mus, res>>
            ELSE \E S \in SUBSET All : /\ UnsatIdx(S)
                   /\ cand' = S /\ todo' = IdxSeq(S) /\ mus' = {} /\ UNCHANGED res
                   /\ phase' = (IF alg = "deletion" THEN "delete" ELSE "insert")
         /\ UNCHANGED <<F, alg>>

(* deletion: examine the members one by one *)
Delete == /\ phase = "delete"
          /\ IF todo = <<>> THEN /\ res' = "ok" /\ mus' = cand /\ phase' = "done" /\ UNCHANGED <<cand, todo>>
             ELSE LET i == Head(todo) IN
                  /\ cand' = IF UnsatIdx(cand \ {i}) THEN cand \ {i} ELSE cand
                  /\ todo' = Tail(todo) /\ UNCHANGED <<mus, res, phase>>
          /\ UNCHANGED <<F, alg>>

(* insertion: todo = the clauses still available, in order *)
Insert == /\ phase = "insert"
          /\ IF UnsatIdx(mus) THEN /\ res' = "ok" /\ phase' = "done" /\ UNCHANGED <<cand, todo, mus>>
             ELSE LET k == CHOOSE k \in 1..Len(todo) :
                               /\ UnsatIdx(mus \cup {todo[j] : j \in 1..k})
                               /\ \A k2 \in 1..(k - 1) : ~UnsatIdx(mus \cup {todo[j] : j \in 1..k2})
                  IN /\ mus' = mus \cup {todo[k]}
                     /\ todo' = SubSeq(todo, 1, k - 1) /\ UNCHANGED <<cand, res, phase>>
          /\ UNCHANGED <<F, alg>>

(* maxsat: any model of the hard part (the clauses collected so far) that falsifies as few of the others as possible *)
FalsIdx(a) == {i \in All : ~SatCl(a, F[i])}
Collect == /\ phase = "collect"
           /\ IF UnsatIdx(mus)
              THEN IF Minimise THEN /\ cand' = mus /\ todo' = IdxSeq(mus) /\ phase' = "delete" /\ UNCHANGED <<mus, res>>
                   ELSE /\ res' = "ok" /\ phase' = "done" /\ UNCHANGED <<cand, todo, mus>>
              ELSE LET HM == {a \in Assignments(N) : \A i \in mus : SatCl(a, F[i])}
                       best == CHOOSE k \in {Cardinality(FalsIdx(a)) : a \in HM} : \A a \in HM : Cardinality(FalsIdx(a)) >= k
                   IN \E a \in HM : /\ Cardinality(FalsIdx(a)) = best
                                    /\ mus' = mus \cup FalsIdx(a) /\ UNCHANGED <<cand, todo, res, phase>>
           /\ UNCHANGED <<F, alg>>

Next == Start \/ Delete \/ Insert \/ Collect
Spec == Init /\ [][Next]_vars

IsMUSIdx(S) == UnsatIdx(S) /\ \A i \in S : ~UnsatIdx(S \ {i})
ResultIsMUS == (phase = "done" /\ res = "ok") => IsMUSIdx(mus)
ErrorIffSat == (phase = "done") => ((res = "error") <=> ~UnsatIdx(All))
Terminates == <>(phase = "done")
(* the one-pass formulation of minimal unsatisfiability used on traces agrees with the definition *)
Lemma == phase = "start" => FalsLemma(N, F)

EmitFile == IF "VERIF_EMIT" \in DOMAIN IOEnv THEN IOEnv.VERIF_EMIT ELSE "mus_emit.ndjson"
EmitF == (phase = "start" /\ alg = "deletion") => CSVWrite("%1$s", <<ToJson([n |-> N, F |-> F])>>, EmitFile)
=============================================================================
