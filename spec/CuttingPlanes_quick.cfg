SPECIFICATION Spec
CONSTANTS
  N = 2
  W = 2
  Rounding = "away"
INVARIANTS RoundSound ClashSound PivotEliminated OpsAgree EmitOps
CHECK_DEADLOCK FALSE
