---------------------------- MODULE IsolationTrace ----------------------------
(***************************************************************************)
(* Code -> spec for the gate-replayed interleavings of Isolation.tla (C16): *)
(* under the schedule, every instance must learn exactly the clauses, in    *)
(* the same order, and give the verdict of its solo run (NoInterference).   *)
(***************************************************************************)
EXTENDS Integers, Sequences, TLC, Json, IOUtils

Cases == ndJsonDeserialize(IOEnv.VERIF_TRACE)
OutFile == IOEnv.VERIF_OUT
VARIABLES ci, ei, bad, nev
vars == <<ci, ei, bad, nev>>
Case == Cases[ci]
Ev == Case.ev[ei]

IsoWhy(e) ==
  IF ~e.scheduleFollowed THEN "schedule-could-not-be-followed"
  ELSE IF \E i \in 1..Len(e.solo) : e.conc[i].verdict # e.solo[i].verdict THEN "instances-interfered-verdict"
  ELSE IF \E i \in 1..Len(e.solo) : e.conc[i].learned # e.solo[i].learned THEN "instances-interfered-learned-clauses"
  ELSE ""
Why == CASE Ev.op = "iso"     -> IsoWhy(Ev)
         [] Ev.op = "skip"    -> ""
         [] Ev.op = "crash"   -> "crash"
         [] Ev.op = "timeout" -> "timeout"
         [] OTHER             -> "unknown-event"
Init == ci = 1 /\ ei = 1 /\ bad = <<>> /\ nev = 0
Step == /\ ci <= Len(Cases) /\ ei <= Len(Case.ev)
        /\ LET why == Why IN bad' = IF why = "" THEN bad ELSE Append(bad, <<Case.id, ei, why>>)
        /\ ei' = ei + 1 /\ nev' = nev + 1 /\ UNCHANGED ci
NextCase == /\ ci <= Len(Cases) /\ ei > Len(Case.ev)
            /\ ci' = ci + 1 /\ ei' = 1 /\ UNCHANGED <<bad, nev>>
Next == Step \/ NextCase
Spec == Init /\ [][Next]_vars
Done == ci > Len(Cases)
Emit == Done => JsonSerialize(OutFile, [cases |-> Len(Cases), events |-> nev, bad |-> bad])
=============================================================================
