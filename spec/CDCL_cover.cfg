SPECIFICATION Spec
CONSTANTS
  N = 3
  K = 2
  MaxLen = 2
  MaxLearn = 3
  MaxRestart = 1
INVARIANTS TypeOK TrailConsistent ReasonForces SatSound UnsatSound LearnEntailed ConflEntailed DecisionsDetermineModel
PROPERTY CertRUP
CHECK_DEADLOCK FALSE
