SPECIFICATION Spec
CONSTANTS
  K = 2
  C = 3
  Shared = FALSE
INVARIANTS NoInterference EmitSched
CHECK_DEADLOCK FALSE
