SPECIFICATION Spec
CONSTANTS
  N = 3
  K = 3
  MaxLen = 3
  MaxLearn = 4
  MaxRestart = 1
INVARIANTS TypeOK TrailConsistent ReasonForces SatSound UnsatSound LearnEntailed ConflEntailed DecisionsDetermineModel EmitInit
PROPERTY CertRUP
CHECK_DEADLOCK FALSE
