SPECIFICATION Spec
CONSTANTS
  Kind = "cnf"
  L = 5
  NV = 2
  MaxTerms = 0
  MaxCons = 0
  Coefs = {}
  OVars = {}
  Rhs = {}
INVARIANTS CnfLayout EmitCnf
CHECK_DEADLOCK FALSE
