----------------------------- MODULE SearchTrace -----------------------------
(***************************************************************************)
(* Code -> spec, action by action: the searches recorded from the real     *)
(* solver (hook events of one Solve call: assign, prop, conflict, learn,   *)
(* backtrack, restart, delete, unsat, solve-end) are matched against the   *)
(* ACTIONS of PBCDCL.tla.  Each event is one action of the specification   *)
(* with its parameters bound to the logged values; the conflict analysis,  *)
(* which the code performs inside one call of learnClause, is a sequence   *)
(* of silent Explain / Minimise steps between the events "conflict" and    *)
(* "learn" that must end in exactly the clause the code reports.  Cheap    *)
(* scalars logged with every event (decision level, trail length) are      *)
(* compared with the state of the specification after the step.            *)
(*                                                                         *)
(* Input (VERIF_TRACE, NDJSON), one search per line:                       *)
(*   [id, n, units, cons, status, sts, ev]                                 *)
(* (sts: the replies of the Solve calls of a history of Assume / Solve     *)
(* rounds, ev then holds the events of all rounds)                         *)
(* n, units, cons: the problem the solver was built on (the parsed problem *)
(* as dumped through its public fields), status: the reply of Solve, wb:   *)
(* the hook events.                                                        *)
(*                                                                         *)
(* A search is a behaviour of PBCDCL iff every event is consumed.  Since   *)
(* PBCDCL satisfies SatSound / UnsatSound / LearnEntailed, an accepted     *)
(* search proves its own verdict for ANY number of variables: no model     *)
(* enumeration is involved.  When no action matches the next event the     *)
(* step is recorded in `bad` (<<case, event index, "mech:" + kind>>) and   *)
(* the search is abandoned: mechanism-level divergences are diagnostics    *)
(* (the properties do not prescribe a search algorithm).                   *)
(*                                                                         *)
(* The strategy of the code is bound, not guessed: Explain resolves the    *)
(* literal assigned LAST among those of the current level (learnClause     *)
(* walks the trail backwards), Minimise drops, latest first, the literals  *)
(* that the reported clause does not contain.                              *)
(***************************************************************************)
EXTENDS PBCDCL

Cases == ndJsonDeserialize(IOEnv.VERIF_TRACE)
OutFile == IOEnv.VERIF_OUT
(* the constant N of PBCDCL is set by the orchestrator to the largest n of the searches in the file *)

VARIABLES ci,     \* index of the current search
          wi,     \* index of its next event
          pend,   \* a clause was learned: the code has yet to report the backtrack and the assertion
          bad,    \* rejected steps
          nev     \* events consumed or skipped (acceptance count)
tvars == <<vars, ci, wi, pend, bad, nev>>      \* (vars of PBCDCL includes asm and nround)

Case == Cases[ci]
Ev == Case.ev[wi]
HasEv == ci >= 1 /\ ci <= Len(Cases) /\ wi <= Len(Case.ev)
Consume == wi' = wi + 1 /\ nev' = nev + 1 /\ UNCHANGED <<ci, bad>>

RangeS(s) == {s[i] : i \in 1..Len(s)}
(* a constraint reported by a hook / dumped from the problem, as a constraint of the specification *)
ConsOf(e) == [w |-> [l \in RangeS(e.lits) |-> e.w[CHOOSE i \in 1..Len(e.lits) : e.lits[i] = l]], d |-> e.d]
WellFormed(e) == /\ Len(e.lits) > 0 /\ Len(e.w) = Len(e.lits)
                 /\ \A i \in 1..Len(e.lits) : e.lits[i] \in Lit /\ e.w[i] > 0
                 /\ \A i, j \in 1..Len(e.lits) : i # j => e.lits[i] # e.lits[j]

(* variables above the n of the search do not exist for the code: they are fixed by padding facts *)
Pad(c) == (c.n + 1)..N
UnitC(l) == ClauseOf({l})
(* a fact stated several times sits on the trail of the code several times (harmless): once here, and *)
(* the logged trail lengths are compared modulo the repetitions                                       *)
RECURSIVE TrailOf(_, _)
TrailOf(ls, i) == IF i > Len(ls) THEN <<>>
                  ELSE IF \E j \in 1..(i - 1) : ls[j] = ls[i] THEN TrailOf(ls, i + 1)
                  ELSE <<[lit |-> ls[i], lvl |-> 0, reason |-> UnitC(ls[i])]>> \o TrailOf(ls, i + 1)
RECURSIVE PadTrail(_, _)
PadTrail(lo, hi) == IF lo > hi THEN <<>> ELSE <<[lit |-> lo, lvl |-> 0, reason |-> UnitC(lo)]>> \o PadTrail(lo + 1, hi)
PadDone == ci >= 1 /\ ci <= Len(Cases) /\ \A v \in Pad(Case) : IsTrue(v)
IsEv(k) == HasEv /\ Ev.k = k /\ PadDone
NPad == (N - Case.n) - (Len(Case.units) - Cardinality(RangeS(Case.units)))

Load(k) == LET c == Cases[k] IN
  /\ F' = {ConsOf(c.cons[i]) : i \in 1..Len(c.cons)} \cup {UnitC(c.units[i]) : i \in 1..Len(c.units)} \cup {UnitC(v) : v \in Pad(c)}
  /\ L' = {} /\ confl' = NONE /\ status' = "Indet" /\ nlearn' = 0 /\ nrestart' = 0 /\ asm' = {} /\ nround' = 0
  /\ trail' = PadTrail(c.n + 1, N) \o TrailOf(c.units, 1)
  /\ pend' = FALSE

TInit == /\ ci = 0 /\ wi = 1 /\ bad = <<>> /\ nev = 0 /\ pend = FALSE
         /\ F = {} /\ L = {} /\ trail = <<>> /\ confl = NONE /\ status = "Indet" /\ nlearn = 0 /\ nrestart = 0
         /\ asm = {} /\ nround = 0

(* the scalars the hook logs with an event: level (code level = level here + 1), trail length *)
LvlIs(k) == CurLvl' = k - 1
TlIs == nround > 0 \/ Len(trail') - NPad = Ev.tl     \* (after an Assume the code may hold a fact twice)

(* ---- one action of PBCDCL per event ----------------------------------------------------------- *)
TDecide == /\ IsEv("assign") /\ Ev.dec /\ Ev.lvl >= 2 /\ ~pend
           /\ Decide(Ev.lit) /\ LvlIs(Ev.lvl) /\ TlIs
           /\ Consume /\ UNCHANGED pend

TProp == /\ IsEv("prop") /\ ~pend /\ WellFormed(Ev)
         /\ Propagate(ConsOf(Ev), Ev.lit) /\ LvlIs(Ev.lvl) /\ TlIs
         /\ Consume /\ UNCHANGED pend

TConflict == /\ IsEv("conflict") /\ ~pend /\ WellFormed(Ev)
             /\ Conflict(ConsOf(Ev)) /\ CurLvl = Ev.lvl - 1
             /\ Consume /\ UNCHANGED pend

(* conflict analysis: silent steps towards the clause the code reports *)
Target == RangeS(Ev.lits)
LatestOf(S) == CHOOSE l \in S : \A x \in S : PosOf(-x) <= PosOf(-l)
Droppable == {l \in confl \ Target : LvlOf(l) < CurLvl /\ ReasonOf(-l) # NOREASON /\ Antecedent(-l) \subseteq confl}
TExplain == /\ IsEv("learn") /\ CurLvl > 0 /\ confl # NONE /\ Cardinality(CurLits) > 1
            /\ Explain(LatestOf(CurLits))
            /\ UNCHANGED <<ci, wi, pend, bad, nev>>
TMinimise == /\ IsEv("learn") /\ CurLvl > 0 /\ confl # NONE /\ Cardinality(CurLits) = 1
             /\ Droppable # {}
             /\ Minimise(LatestOf(Droppable))
             /\ UNCHANGED <<ci, wi, pend, bad, nev>>
TLearn == /\ IsEv("learn") /\ CurLvl > 0 /\ confl = Target
          /\ Backjump
          /\ pend' = TRUE /\ Consume
(* a conflict at the top level: whatever learnClause computes there is not used, the search fails *)
TLearnTop == /\ HasEv /\ Ev.k \in {"learn", "learn-empty"} /\ CurLvl = 0 /\ confl # NONE
             /\ Consume /\ UNCHANGED <<vars, pend>>

(* the code reports the backtrack and the assertion of the learned clause separately: both must  *)
(* agree with the state Backjump produced                                                        *)
TBackAfterLearn == /\ IsEv("backtrack") /\ pend
                   /\ CurLvl = Ev.lvl - 1 /\ (nround > 0 \/ Len(trail) - 1 - NPad = Ev.tl)
                   /\ Consume /\ UNCHANGED <<vars, pend>>
TAssert == /\ IsEv("assign") /\ pend
           /\ trail[Len(trail)].lit = Ev.lit /\ CurLvl = Ev.lvl - 1 /\ (nround > 0 \/ Len(trail) - NPad = Ev.tl)
           /\ (~Ev.dec => ConsOf(Ev) = trail[Len(trail)].reason)
           /\ pend' = FALSE /\ Consume /\ UNCHANGED vars

TRestart == /\ IsEv("backtrack") /\ ~pend /\ Ev.lvl = 1 /\ (nround = 0 \/ CurLvl > 0)
            /\ IF CurLvl > 0 THEN Restart ELSE UNCHANGED vars
            /\ TlIs
            /\ Consume /\ UNCHANGED pend
TMark == /\ HasEv /\ Ev.k \in {"restart", "reduce"} /\ ~pend /\ confl = NONE
         /\ (Ev.k = "restart" => CurLvl = 0)
         /\ Consume /\ UNCHANGED <<vars, pend>>
TForget == /\ IsEv("delete") /\ ~pend /\ WellFormed(Ev)
           /\ Forget(ConsOf(Ev))
           /\ Consume /\ UNCHANGED pend

(* ---- rounds under assumptions ----------------------------------------------------------------- *)
(* "assume": Solver.Assume starts a round (NewRound); the code then reports the trail being emptied,  *)
(* the facts being put back (each is forced by a unit constraint of the database: Propagate) and the   *)
(* assumed literals (AssumeLit), all as assignments at the top level without a reason.                *)
TNewRound == /\ IsEv("assume") /\ ~pend
             /\ NewRound(RangeS(Ev.lits))
             /\ Consume /\ UNCHANGED pend
TPad == /\ ci >= 1 /\ ci <= Len(Cases) /\ ~PadDone /\ CurLvl = 0 /\ confl = NONE /\ status = "Indet"
        /\ LET v == CHOOSE v \in Pad(Case) : ~IsTrue(v) IN Propagate(UnitC(v), v)
        /\ UNCHANGED <<ci, wi, pend, bad, nev>>
TBackRound == /\ IsEv("backtrack") /\ ~pend /\ nround > 0 /\ CurLvl = 0 /\ confl = NONE
              /\ Consume /\ UNCHANGED <<vars, pend>>
TTopAssign == /\ IsEv("assign") /\ Ev.dec /\ Ev.lvl = 1 /\ ~pend /\ nround > 0 /\ CurLvl = 0
              /\ \/ IsTrue(Ev.lit) /\ UNCHANGED vars                          \* a fact stated twice
                 \/ UnitC(Ev.lit) \in DB /\ Propagate(UnitC(Ev.lit), Ev.lit)    \* a fact (problem unit, learned unit)
                 \/ UnitC(Ev.lit) \notin DB /\ AssumeLit(Ev.lit)                \* an assumption of this round
              /\ Consume /\ UNCHANGED pend

(* Unsat: either the conflict under analysis is at the top level (Fail), or the code found a constraint *)
(* falsified while asserting a learned fact at the top level and reports only the verdict:              *)
(* a silent Conflict step first                                                                        *)
TTopConflict == /\ IsEv("unsat") /\ confl = NONE /\ CurLvl = 0 /\ ~NoConfl
                /\ Conflict(CHOOSE c \in DB : Slack(c) < 0)
                /\ UNCHANGED <<ci, wi, pend, bad, nev>>
TUnsat == /\ IsEv("unsat") /\ Fail
          /\ Consume /\ UNCHANGED pend
Reply == IF nround = 0 THEN Case.status ELSE Case.sts[nround]
TEnd == /\ IsEv("solve-end")
        /\ \/ Reply = "SAT" /\ Succeed
           \/ Reply = "UNSAT" /\ status = "Unsat" /\ UNCHANGED vars
        /\ Consume /\ UNCHANGED pend

Match == \/ TDecide \/ TProp \/ TConflict \/ TExplain \/ TMinimise \/ TLearn \/ TLearnTop
         \/ TBackAfterLearn \/ TAssert \/ TRestart \/ TMark \/ TForget \/ TTopConflict \/ TUnsat \/ TEnd
         \/ TNewRound \/ TPad \/ TBackRound \/ TTopAssign

(* no action of the specification explains the next event: record it, abandon this search *)
Reject == /\ HasEv /\ ~ENABLED Match
          /\ bad' = Append(bad, <<Case.id, wi, "mech:" \o Ev.k>>)
          /\ wi' = Len(Case.ev) + 1 /\ nev' = nev + (Len(Case.ev) - wi + 1)
          /\ UNCHANGED <<vars, ci, pend>>

NextCase == /\ ci <= Len(Cases) /\ (IF ci = 0 THEN TRUE ELSE wi > Len(Case.ev))
            /\ ci' = ci + 1 /\ wi' = 1 /\ UNCHANGED <<bad, nev>>
            /\ IF ci + 1 <= Len(Cases) THEN Load(ci + 1) ELSE UNCHANGED <<vars, pend>>

TNext == Match \/ Reject \/ NextCase
TSpec == TInit /\ [][TNext]_tvars

Done == ci > Len(Cases)
Emit == Done => JsonSerialize(OutFile, [cases |-> Len(Cases), events |-> nev, bad |-> bad])
(* the invariants of PBCDCL that do not enumerate models are evaluated in every state of every search *)
=============================================================================
