SPECIFICATION Spec
CONSTANTS
  Kind = "wcnf"
  L = 5
  NV = 2
  MaxTerms = 0
  MaxCons = 0
  Coefs = {}
  OVars = {}
  Rhs = {}
INVARIANTS WcnfLayout WcnfTop EmitWcnf
CHECK_DEADLOCK FALSE
