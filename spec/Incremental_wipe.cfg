SPECIFICATION Spec
CONSTANTS
  N = 2
  K = 2
  R = 2
  Keep = FALSE
INVARIANT RefinesAPI
CHECK_DEADLOCK FALSE
