------------------------------ MODULE ParseCard ------------------------------
(***************************************************************************)
(* Parse-time handling of cardinality constraints (solver/parser_pb.go      *)
(* ParseCardConstrs, solver/problem.go simplifyCard, addUnits; property     *)
(* C02; the repaired defect 9cb704e lived here).  Companion of ParsePB.tla  *)
(* and Simplify.tla: the same pass structure, with "at least card of lits". *)
(*                                                                          *)
(*   Classify   card <= 0: dropped; fewer literals than card: Unsat; as     *)
(*              many literals as card: all of them become units; otherwise  *)
(*              kept.  Then the units go into the model (opposite units:    *)
(*              Unsat)                                                      *)
(*   Lit        one literal of the current constraint: unassigned: next;    *)
(*              true: card drops by one (card = 0: the constraint is        *)
(*              satisfied) and the literal is overwritten by the last live  *)
(*              one; false: overwritten by the last live one                *)
(*   EndC       satisfied: removed (the last live constraint takes its      *)
(*              place); fewer live literals than card: Unsat; as many: they *)
(*              all become units, the constraint is removed, and the pass   *)
(*              will be followed by another one; otherwise shrunk and kept  *)
(*   EndPass    Repass = "fixpoint": another pass iff a unit was found (the *)
(*              code); "once": never (mutation, Fixpoint must fail);        *)
(*   TrueLit = "recount" models the code before 9cb704e: a true literal was *)
(*              not skipped but counted again and again until the           *)
(*              constraint looked satisfied (ModelsPreserved must fail)     *)
(***************************************************************************)
EXTENDS Logic, TLC, Json, CSV, IOUtils

CONSTANTS NV, MaxK, L, Repass, TrueLit

Vars == 1..NV
Lits == {v : v \in Vars} \cup {-v : v \in Vars}
DistinctVars(ls) == \A a, b \in 1..Len(ls) : a # b => Abs(ls[a]) # Abs(ls[b])
Universe == UNION {{[lits |-> ls, d |-> d] : ls \in {x \in [1..k -> Lits] : DistinctVars(x)}, d \in 1..(k + 1)} : k \in 1..MaxK}
Inputs == UNION {[1..n -> Universe] : n \in 1..L}

VARIABLES input, cs,   \* cs[k] = [lits, card]: live literals are lits[1..nb] during a scan, all of them between scans
          model, status, i, j, nb, card, sat, restart, pc
vars == <<input, cs, model, status, i, j, nb, card, sat, restart, pc>>

Init == /\ input \in Inputs
        /\ cs = <<>> /\ model = [v \in Vars |-> 0] /\ status = "Indet"
        /\ i = 1 /\ j = 1 /\ nb = 0 /\ card = 0 /\ sat = FALSE /\ restart = FALSE /\ pc = "classify"

ValOf(l) == IF l > 0 THEN 1 ELSE -1
Classify ==
  /\ pc = "classify"
  /\ LET RECURSIVE Go(_, _, _)
         Go(k, kept, units) ==
           IF k > Len(input) THEN [kept |-> kept, units |-> units, unsat |-> FALSE]
           ELSE LET c == input[k] IN
                IF Len(c.lits) < c.d THEN [kept |-> kept, units |-> units, unsat |-> TRUE]
                ELSE IF Len(c.lits) = c.d THEN Go(k + 1, kept, units \cup Range(c.lits))
                ELSE Go(k + 1, Append(kept, [lits |-> c.lits, card |-> c.d]), units)
         r == Go(1, <<>>, {})
     IN IF r.unsat \/ (\E l \in r.units : -l \in r.units)
        THEN /\ status' = "Unsat" /\ pc' = "done" /\ cs' = <<>> /\ UNCHANGED model
        ELSE /\ model' = [v \in Vars |-> IF v \in r.units THEN 1 ELSE IF -v \in r.units THEN -1 ELSE 0]
             /\ cs' = r.kept /\ pc' = "pass" /\ UNCHANGED status
  /\ UNCHANGED <<input, i, j, nb, card, sat, restart>>

StartPass == /\ pc = "pass" /\ i' = 1 /\ restart' = FALSE /\ pc' = "startc"
             /\ UNCHANGED <<input, cs, model, status, j, nb, card, sat>>
StartC == /\ pc = "startc"
          /\ IF i > Len(cs) THEN pc' = "endpass" /\ UNCHANGED <<j, nb, card, sat>>
             ELSE /\ j' = 1 /\ nb' = Len(cs[i].lits) /\ card' = cs[i].card /\ sat' = FALSE /\ pc' = "lit"
          /\ UNCHANGED <<input, cs, model, status, i, restart>>

(* c.Set(j, c.Get(nb)) after nb was decremented: the last live literal overwrites position j *)
Overwrite(ls, pos, last) == [ls EXCEPT ![pos] = ls[last]]
SetC(k, c) == [cs EXCEPT ![k] = c]

Lit == /\ pc = "lit"
       /\ IF j > nb THEN pc' = "endc" /\ UNCHANGED <<cs, j, nb, card, sat>>
          ELSE LET c == cs[i]  l == c.lits[j]  v == Abs(l) IN
               IF model[v] = 0 THEN j' = j + 1 /\ UNCHANGED <<cs, nb, card, sat, pc>>
               ELSE IF model[v] = ValOf(l)
               THEN IF card - 1 = 0 \/ TrueLit = "recount"
                    THEN /\ sat' = TRUE /\ card' = 0 /\ pc' = "endc" /\ UNCHANGED <<cs, j, nb>>
                    ELSE /\ card' = card - 1 /\ nb' = nb - 1
                         /\ cs' = SetC(i, [lits |-> Overwrite(c.lits, j, nb), card |-> c.card - 1])
                         /\ UNCHANGED <<j, sat, pc>>
               ELSE /\ nb' = nb - 1 /\ cs' = SetC(i, [c EXCEPT !.lits = Overwrite(c.lits, j, nb)])
                    /\ UNCHANGED <<j, card, sat, pc>>
       /\ UNCHANGED <<input, model, status, i, restart>>

RemoveC(k) == IF k = Len(cs) THEN SubSeq(cs, 1, Len(cs) - 1)
              ELSE [a \in 1..(Len(cs) - 1) |-> IF a = k THEN cs[Len(cs)] ELSE cs[a]]
Opposed(ls, n) == \E x \in 1..n : model[Abs(ls[x])] = -ValOf(ls[x])
EndC == /\ pc = "endc"
        /\ IF sat THEN /\ cs' = RemoveC(i) /\ pc' = "startc" /\ UNCHANGED <<model, status, i, restart>>
           ELSE IF nb < card THEN /\ status' = "Unsat" /\ pc' = "done" /\ UNCHANGED <<cs, model, i, restart>>
           ELSE IF nb = card     \* every live literal becomes a unit (they are unassigned, so no clash)
           THEN /\ model' = [v \in Vars |-> IF \E x \in 1..nb : cs[i].lits[x] = v THEN 1
                                            ELSE IF \E x \in 1..nb : cs[i].lits[x] = -v THEN -1 ELSE model[v]]
                /\ cs' = RemoveC(i) /\ restart' = TRUE /\ pc' = "startc" /\ UNCHANGED <<status, i>>
           ELSE /\ cs' = SetC(i, [cs[i] EXCEPT !.lits = SubSeq(cs[i].lits, 1, nb)])       \* Shrink
                /\ i' = i + 1 /\ pc' = "startc" /\ UNCHANGED <<model, status, restart>>
        /\ UNCHANGED <<input, j, nb, card, sat>>

EndPass == /\ pc = "endpass"
           /\ IF restart /\ Repass = "fixpoint" THEN pc' = "pass" /\ UNCHANGED status
              ELSE /\ pc' = "done"
                   /\ status' = IF status = "Indet" /\ cs = <<>> THEN "Sat" ELSE status
           /\ UNCHANGED <<input, cs, model, i, j, nb, card, sat, restart>>

Next == Classify \/ StartPass \/ StartC \/ Lit \/ EndC \/ EndPass
Spec == Init /\ [][Next]_vars

AsCon(c) == [lits |-> c.lits, w |-> Ones(Len(c.lits)), rel |-> ">=", rhs |-> c.d]
M0 == {a \in Assignments(NV) : \A k \in 1..Len(input) : SatC(a, AsCon(input[k]))}
Residual(c) == [lits |-> c.lits, w |-> Ones(Len(c.lits)), rel |-> ">=", rhs |-> c.card]
Parsed == IF status = "Unsat" THEN {}
          ELSE {a \in Assignments(NV) : /\ \A v \in Vars : model[v] # 0 => (a[v] = (model[v] = 1))
                                        /\ \A k \in 1..Len(cs) : SatC(a, Residual(cs[k]))}
ModelsPreserved == pc = "done" => Parsed = M0
Fixpoint == (pc = "done" /\ status # "Unsat") =>
              \A k \in 1..Len(cs) : /\ \A x \in 1..Len(cs[k].lits) : model[Abs(cs[k].lits[x])] = 0
                                    /\ cs[k].card >= 1 /\ Len(cs[k].lits) > cs[k].card
StatusSat == (pc = "done" /\ status = "Sat") => cs = <<>>

EmitFile == IF "VERIF_EMIT" \in DOMAIN IOEnv THEN IOEnv.VERIF_EMIT ELSE "parsecard_emit.ndjson"
EmitInit == pc = "classify" => CSVWrite("%1$s", <<ToJson([n |-> NV, cons |-> input])>>, EmitFile)
=============================================================================
