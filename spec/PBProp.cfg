SPECIFICATION Spec
CONSTANTS
  K = 3
  W = 3
  MinW = 1
INVARIANTS ConflictExact Sound Complete
CHECK_DEADLOCK FALSE
