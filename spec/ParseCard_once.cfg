SPECIFICATION Spec
CONSTANTS
  NV = 3
  MaxK = 2
  L = 3
  Repass = "once"
  TrueLit = "remove"
INVARIANTS Fixpoint
CHECK_DEADLOCK FALSE
