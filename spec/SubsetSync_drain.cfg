SPECIFICATION Spec
CONSTANTS
  L = 3
  Drain = TRUE
INVARIANTS NoRace NoLeak
PROPERTY GoroutineEnds
CHECK_DEADLOCK FALSE
