------------------------------ MODULE Enumerate ------------------------------
(***************************************************************************)
(* Model enumeration and counting (solver.go Enumerate / CountModels,       *)
(* property C05) on top of the search of CDCL.tla.                          *)
(*                                                                          *)
(*   Block    a model was found: report it; add the clause that negates its *)
(*            decisions (the blocking clause) to the problem; backtrack one *)
(*            level below the last decision and assert its negation there,  *)
(*            with the blocking clause as reason; go on searching           *)
(*   Finish   a model found without any decision is the last one            *)
(*   (Fail)   the search ends when the strengthened problem is Unsat        *)
(*                                                                          *)
(* Because the propagated part of a model is determined by its decisions    *)
(* (CDCL!DecisionsDetermineModel), the blocking clause removes exactly the  *)
(* model just reported.  Checked for every formula of the scope and every   *)
(* schedule of the search (restarts, clause deletion included):             *)
(*   NoDuplicate   no model is reported twice                               *)
(*   Sound         every reported assignment is a model of the input        *)
(*   Complete      at the end every model of the input has been reported    *)
(* The code stores all variables in every model (all are bound when a model *)
(* is found), so one report = one total assignment.                         *)
(***************************************************************************)
EXTENDS CDCL

VARIABLES F0, rep
evars == <<F, L, trail, confl, status, nlearn, nrestart, F0, rep>>

InitE == Init /\ F0 = F /\ rep = <<>>
Model == [v \in Vars |-> v \in Assigned]
LastDecision == CHOOSE i \in 1..Len(trail) : trail[i].reason = NONE /\ trail[i].lvl = CurLvl

Block == /\ status = "Sat" /\ Decisions # {}
         /\ LET cl == {-l : l \in Decisions}
                d == trail[LastDecision].lit
                keep == SelectSeq(trail, LAMBDA e : e.lvl < CurLvl)
            IN /\ F' = F \cup {cl}
               /\ trail' = Append(keep, [lit |-> -d, lvl |-> CurLvl - 1, reason |-> cl])
         /\ rep' = Append(rep, Model) /\ status' = "Indet"
         /\ UNCHANGED <<L, confl, nlearn, nrestart, F0>>
Finish == /\ status = "Sat" /\ Decisions = {}
          /\ rep' = Append(rep, Model) /\ status' = "Done"
          /\ UNCHANGED <<F, L, trail, confl, nlearn, nrestart, F0>>
NextE == (Next /\ UNCHANGED <<F0, rep>>) \/ Block \/ Finish
SpecE == InitE /\ [][NextE]_evars

NoDuplicate == \A i, j \in 1..Len(rep) : i # j => rep[i] # rep[j]
Sound == \A i \in 1..Len(rep) : rep[i] \in ModelsOf(F0)
Complete == status \in {"Unsat", "Done"} => {rep[i] : i \in 1..Len(rep)} = ModelsOf(F0)
(* the problem only ever loses the models already reported *)
BlockedOnly == ModelsOf(F) = ModelsOf(F0) \ {rep[i] : i \in 1..Len(rep)} \/ status = "Done"
=============================================================================
