SPECIFICATION Spec
CONSTANTS
  K = 3
  Scheme = "lowest"
INVARIANT Complete
CHECK_DEADLOCK FALSE
