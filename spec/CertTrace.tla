----------------------------- MODULE CertTrace -----------------------------
(***************************************************************************)
(* Local (certificate-style) tier for C01 / C06 on problems too large for   *)
(* model sets: the verdict is justified step by step.                       *)
(*   Sat    the reported model has one value per variable and satisfies     *)
(*          every clause as written;                                        *)
(*   Unsat  (certificate on) every emitted line is RUP w.r.t. the input and *)
(*          the earlier lines, and the empty clause is RUP at the end -     *)
(*          which, RUP being sound, proves the verdict;                     *)
(*   lines emitted on Sat problems must be RUP too;                         *)
(*   planted problems (a witness assignment comes with the case and is      *)
(*   evaluated here) must be answered Sat.                                  *)
(* Unit propagation is Logic!UP: no code shared with the solver or with     *)
(* package explain.                                                         *)
(***************************************************************************)
EXTENDS Logic, TLC, Json, IOUtils

Cases == ndJsonDeserialize(IOEnv.VERIF_TRACE)
OutFile == IOEnv.VERIF_OUT

VARIABLES ci, ei, bad, nev
vars == <<ci, ei, bad, nev>>
Case == Cases[ci]
Ev == Case.ev[ei]
F == [i \in 1..Len(Case.cons) |-> Case.cons[i].lits]
F0 == {Range(F[i]) : i \in 1..Len(F)}

(* a case may carry a witness: an assignment the generator claims to satisfy the input.  The claim  *)
(* is evaluated here, clause by clause; a true claim proves the input satisfiable for any number of *)
(* variables, so the verdict must be Sat.  A witness that does not satisfy the input (it may be the  *)
(* model ANOTHER run of the code returned for the same formula) proves nothing and is ignored.       *)
HasWitness == "witness" \in DOMAIN Case /\ Len(Case.witness) > 0
WitnessOK == Len(Case.witness) = Case.n /\ \A i \in 1..Len(F) : SatCl(Case.witness, F[i])
SolveWhy(e) ==
  IF e.status \notin {"SAT", "UNSAT"} THEN "indet"
  ELSE IF HasWitness /\ WitnessOK /\ e.status # "SAT" THEN "verdict"
  ELSE IF e.status = "SAT" /\ Len(e.model) # Case.n THEN "model-length"
  ELSE IF e.status = "SAT" /\ \E i \in 1..Len(F) : ~SatCl(e.model, F[i]) THEN "model"
  ELSE IF ~e.certOn THEN ""
  ELSE IF \E i \in 1..Len(e.cert) : \E j \in 1..Len(e.cert[i]) : e.cert[i][j] = 0 THEN "cert-malformed-line"
  ELSE IF FirstNonRUP(F0, e.cert) # 0 THEN "cert-line-not-rup"
  ELSE IF e.status = "UNSAT" /\ ~RUP(F0 \cup {Range(e.cert[i]) : i \in 1..Len(e.cert)}, {}) THEN "cert-no-refutation"
  ELSE ""

Why == CASE Ev.op = "solve"   -> SolveWhy(Ev)
         [] Ev.op = "dump"    -> ""
         [] Ev.op = "skip"    -> ""
         [] Ev.op = "crash"   -> "crash"
         [] Ev.op = "timeout" -> "timeout"
         [] OTHER             -> "unknown-event"

Init == ci = 1 /\ ei = 1 /\ bad = <<>> /\ nev = 0
Step == /\ ci <= Len(Cases) /\ ei <= Len(Case.ev)
        /\ LET why == Why IN
           bad' = IF why = "" THEN bad ELSE Append(bad, <<Case.id, ei, why>>)
        /\ ei' = ei + 1 /\ nev' = nev + 1 /\ UNCHANGED ci
NextCase == /\ ci <= Len(Cases) /\ ei > Len(Case.ev)
            /\ ci' = ci + 1 /\ ei' = 1 /\ UNCHANGED <<bad, nev>>
Next == Step \/ NextCase
Spec == Init /\ [][Next]_vars
Done == ci > Len(Cases)
Emit == Done => JsonSerialize(OutFile, [cases |-> Len(Cases), events |-> nev, bad |-> bad])
=============================================================================
