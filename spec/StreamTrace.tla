----------------------------- MODULE StreamTrace -----------------------------
(***************************************************************************)
(* Code -> spec for the gate-replayed schedules of C20: the observable      *)
(* state recorded after every token (values received so far, close seen,    *)
(* call returned) must be the one Stream!Step computes.                     *)
(* Case: [id, m, cap, forward, ev]; the "sched" event holds the recorded    *)
(* steps [tok, obs].                                                        *)
(***************************************************************************)
EXTENDS Integers, Sequences, TLC, Json, IOUtils

Cases == ndJsonDeserialize(IOEnv.VERIF_TRACE)
OutFile == IOEnv.VERIF_OUT

VARIABLES ci, ei, bad, nev
vars == <<ci, ei, bad, nev>>
Case == Cases[ci]
Ev == Case.ev[ei]

S == INSTANCE Stream WITH MaxM <- 3, MaxCap <- 2, st <- 0, sched <- <<>>,
                          cfg <- [m |-> Case.m, cap |-> Case.cap, fwd |-> Case.forward]

RECURSIVE Replay(_, _, _)
Replay(steps, i, s) ==
  IF i > Len(steps) THEN (IF i - 1 < Len(Case.sched) THEN "schedule-not-completed" ELSE "")
  ELSE LET e == steps[i] IN
       IF ~S!Enabled(s, e.tok) THEN "token-not-enabled"
       ELSE LET s2 == S!Step(s, e.tok)
                o == S!Obs(s2)
            IN IF e.obs.nrecv # o.nrecv THEN "stream-received-count-differs"
               ELSE IF e.obs.saw # o.saw THEN "stream-close-observed-differs"
               ELSE IF e.obs.ret # o.ret THEN "stream-return-differs"
               ELSE Replay(steps, i + 1, s2)

Why == CASE Ev.op = "sched"   -> Replay(Ev.steps, 1, S!Init0)
         [] Ev.op = "skip"    -> ""
         [] Ev.op = "crash"   -> "crash"
         [] Ev.op = "timeout" -> "timeout"
         [] OTHER             -> "unknown-event"

Init == ci = 1 /\ ei = 1 /\ bad = <<>> /\ nev = 0
Step == /\ ci <= Len(Cases) /\ ei <= Len(Case.ev)
        /\ LET why == Why IN
           bad' = IF why = "" THEN bad ELSE Append(bad, <<Case.id, ei, why>>)
        /\ ei' = ei + 1 /\ nev' = nev + 1 /\ UNCHANGED ci
NextCase == /\ ci <= Len(Cases) /\ ei > Len(Case.ev)
            /\ ci' = ci + 1 /\ ei' = 1 /\ UNCHANGED <<bad, nev>>
Next == Step \/ NextCase
Spec == Init /\ [][Next]_vars
Done == ci > Len(Cases)
Emit == Done => JsonSerialize(OutFile, [cases |-> Len(Cases), events |-> nev, bad |-> bad])
=============================================================================
