SPECIFICATION Spec
CONSTANTS
  K = 2
  Full = FALSE
  GuardAll = TRUE
INVARIANTS NNFCorrect TranslationCorrect EmitF
CHECK_DEADLOCK FALSE
