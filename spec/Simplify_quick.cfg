SPECIFICATION Spec
CONSTANTS
  L = 4
  Repass = "all"
INVARIANTS ModelsPreserved Fixpoint EmitInput
CHECK_DEADLOCK FALSE
