------------------------------ MODULE CDCLCert ------------------------------
(***************************************************************************)
(* CDCL.tla with the certificate as a state variable (property C06): cert   *)
(* is the set of lines written so far.  A line is written at Backjump (the  *)
(* learned clause) and at Fail (the empty clause), and must follow by unit  *)
(* propagation from the input formula and the EARLIER LINES - what an       *)
(* independent checker holds - not from the clauses the solver holds.       *)
(*   EmitEarly = FALSE   the line is the learned clause, after minimisation *)
(*                       (the code)                                         *)
(*   EmitEarly = TRUE    the line is the clause as it was before            *)
(*                       minimisation (seeded change C06-out1): the solver  *)
(*                       goes on with the stronger, minimised clause, which *)
(*                       the checker never sees; CertChain can fail         *)
(* Forget removes learned clauses from the solver, never lines from cert.   *)
(***************************************************************************)
EXTENDS Logic, TLC, Json, CSV, IOUtils

CONSTANTS EmitEarly,
          N,          \* variables 1..N
          K,          \* at most K clauses in the input formula
          MaxLen,     \* clauses of the input have at most MaxLen literals
          MaxLearn,   \* bound on the number of learning steps (termination of the model)
          MaxRestart  \* bound on the number of restarts

Vars == 1..N
Lit == {v : v \in Vars} \cup {-v : v \in Vars}
ClauseU == {c \in SUBSET Lit : c # {} /\ Cardinality(c) <= MaxLen /\ \A l \in c : -l \notin c}

VARIABLES F,        \* the input formula: a set of clauses (sets of literals)
          L,        \* learned clauses currently held
          trail,    \* sequence of [lit, lvl, reason]; reason = NONE for a decision
          confl,    \* NONE or the clause under analysis
          status,   \* "Indet", "Sat", "Unsat"
          cert,     \* the certificate lines written so far
          early,    \* NONE or the clause under analysis as it was before the first minimisation step
          nlearn, nrestart
vars == <<F, L, trail, confl, status, cert, early, nlearn, nrestart>>

NONE == {0}
Assigned == {trail[i].lit : i \in 1..Len(trail)}
IsFalse(l) == -l \in Assigned
IsTrue(l) == l \in Assigned
Undef(l) == l \notin Assigned /\ -l \notin Assigned
CurLvl == IF trail = <<>> THEN 0 ELSE trail[Len(trail)].lvl
LvlOf(l) == LET i == CHOOSE i \in 1..Len(trail) : trail[i].lit \in {l, -l} IN trail[i].lvl
ReasonOf(l) == LET i == CHOOSE i \in 1..Len(trail) : trail[i].lit = l IN trail[i].reason
DB == F \cup L

SatAsg(a, c) == \E l \in c : (l > 0 /\ a[l]) \/ (l < 0 /\ ~a[-l])
ModelsOf(S) == {a \in [Vars -> BOOLEAN] : \A c \in S : SatAsg(a, c)}

Init == /\ F \in {S \in SUBSET ClauseU : Cardinality(S) <= K}
        /\ L = {} /\ trail = <<>> /\ confl = NONE /\ status = "Indet" /\ nlearn = 0 /\ nrestart = 0
        /\ cert = {} /\ early = NONE

NoUnit  == \A c \in DB : ~(\E l \in c : Undef(l) /\ \A l2 \in c \ {l} : IsFalse(l2))
NoConfl == \A c \in DB : ~(\A l \in c : IsFalse(l))

Propagate == /\ status = "Indet" /\ confl = NONE
             /\ \E c \in DB : \E l \in c :
                  /\ Undef(l) /\ \A l2 \in c \ {l} : IsFalse(l2)
                  /\ trail' = Append(trail, [lit |-> l, lvl |-> CurLvl, reason |-> c])
             /\ UNCHANGED <<F, L, confl, status, cert, early, nlearn, nrestart>>

Conflict == /\ status = "Indet" /\ confl = NONE
            /\ \E c \in DB : (\A l \in c : IsFalse(l)) /\ confl' = c
            /\ UNCHANGED <<F, L, trail, status, cert, early, nlearn, nrestart>>

(* the code decides only when propagation is complete and there is no conflict *)
Decide == /\ status = "Indet" /\ confl = NONE /\ NoUnit /\ NoConfl
          /\ \E l \in Lit : Undef(l)
               /\ trail' = Append(trail, [lit |-> l, lvl |-> CurLvl + 1, reason |-> NONE])
          /\ UNCHANGED <<F, L, confl, status, cert, early, nlearn, nrestart>>

Explain == /\ status = "Indet" /\ confl # NONE /\ CurLvl > 0
           /\ Cardinality({l \in confl : LvlOf(l) = CurLvl}) > 1
           /\ \E l \in confl : /\ LvlOf(l) = CurLvl /\ ReasonOf(-l) # NONE
                               /\ confl' = (confl \ {l}) \cup (ReasonOf(-l) \ {-l})
           /\ UNCHANGED <<F, L, trail, status, cert, early, nlearn, nrestart>>

(* minimizeLearned: a literal of a lower level whose reason's other literals are all in the clause *)
Minimise == /\ status = "Indet" /\ confl # NONE /\ CurLvl > 0
            /\ Cardinality({l \in confl : LvlOf(l) = CurLvl}) = 1
            /\ \E l \in confl : /\ LvlOf(l) < CurLvl /\ ReasonOf(-l) # NONE
                                /\ (ReasonOf(-l) \ {-l}) \subseteq confl
                                /\ confl' = confl \ {l}
            /\ early' = IF early = NONE THEN confl ELSE early
            /\ UNCHANGED <<F, L, trail, status, cert, nlearn, nrestart>>

Backjump == /\ status = "Indet" /\ confl # NONE /\ CurLvl > 0 /\ nlearn < MaxLearn
            /\ Cardinality({l \in confl : LvlOf(l) = CurLvl}) = 1
            /\ LET uip == CHOOSE l \in confl : LvlOf(l) = CurLvl
                   others == confl \ {uip}
                   bt == IF others = {} THEN 0
                         ELSE CHOOSE m \in {LvlOf(l) : l \in others} : \A l \in others : LvlOf(l) <= m
                   keep == SelectSeq(trail, LAMBDA e : e.lvl <= bt)
               IN /\ trail' = Append(keep, [lit |-> uip, lvl |-> bt, reason |-> confl])
                  /\ L' = L \cup {confl}
            /\ cert' = cert \cup {IF EmitEarly /\ early # NONE THEN early ELSE confl}
            /\ early' = NONE
            /\ confl' = NONE /\ nlearn' = nlearn + 1 /\ UNCHANGED <<F, status, nrestart>>

Fail    == /\ status = "Indet" /\ confl # NONE /\ CurLvl = 0
           /\ status' = "Unsat" /\ cert' = cert \cup {{}} /\ UNCHANGED <<F, L, trail, confl, early, nlearn, nrestart>>

Succeed == /\ status = "Indet" /\ confl = NONE /\ NoConfl /\ \A v \in Vars : ~Undef(v)
           /\ status' = "Sat" /\ UNCHANGED <<F, L, trail, confl, cert, early, nlearn, nrestart>>

Restart == /\ status = "Indet" /\ confl = NONE /\ CurLvl > 0 /\ nrestart < MaxRestart
           /\ trail' = SelectSeq(trail, LAMBDA e : e.lvl = 0)
           /\ nrestart' = nrestart + 1 /\ UNCHANGED <<F, L, confl, status, cert, early, nlearn>>

Forget  == /\ status = "Indet" /\ confl = NONE
           /\ \E c \in L : (\A i \in 1..Len(trail) : trail[i].reason # c) /\ L' = L \ {c}
           /\ UNCHANGED <<F, trail, confl, status, cert, early, nlearn, nrestart>>

Next == Propagate \/ Conflict \/ Decide \/ Explain \/ Minimise \/ Backjump \/ Fail \/ Succeed \/ Restart \/ Forget
Spec == Init /\ [][Next]_vars

(* ---- invariants (C01) ---------------------------------------------------- *)
TypeOK == /\ status \in {"Indet", "Sat", "Unsat"}
          /\ \A i \in 1..Len(trail) : trail[i].lit \in Lit
TrailConsistent == /\ \A i, j \in 1..Len(trail) : i # j => trail[i].lit # trail[j].lit /\ trail[i].lit # -trail[j].lit
                   /\ \A i, j \in 1..Len(trail) : i < j => trail[i].lvl <= trail[j].lvl
(* every propagated literal is forced by its reason under the earlier part of the trail *)
ReasonForces == \A i \in 1..Len(trail) : trail[i].reason # NONE =>
                   /\ trail[i].lit \in trail[i].reason
                   /\ \A l \in trail[i].reason \ {trail[i].lit} : \E j \in 1..(i - 1) : trail[j].lit = -l
SatSound      == status = "Sat" => [v \in Vars |-> v \in Assigned] \in ModelsOf(F)
UnsatSound    == status = "Unsat" => ModelsOf(F) = {}
(* a model found by the search is the ONLY model of F that agrees with its decisions: everything  *)
(* else on the trail was propagated.  This is what makes "block the decisions" in Enumerate and   *)
(* CountModels remove exactly the model just found (C05).                                         *)
Decisions == {trail[i].lit : i \in {j \in 1..Len(trail) : trail[j].reason = NONE}}
DecisionsDetermineModel ==
  status = "Sat" => {a \in ModelsOf(F) : \A l \in Decisions : SatAsg(a, {l})} = {[v \in Vars |-> v \in Assigned]}
LearnEntailed == \A c \in L : \A a \in ModelsOf(F) : SatAsg(a, c)
ConflEntailed == confl # NONE => (\A a \in ModelsOf(F) : SatAsg(a, confl)) /\ (\A l \in confl : IsFalse(l))

(* ---- certificate (C06) --------------------------------------------------- *)
(* A learned clause is emitted at Backjump, the empty clause at Fail.  Each emitted line is   *)
(* RUP w.r.t. the input and the learned clauses the solver holds at that moment; since the    *)
(* checker holds all earlier lines (a superset), the whole certificate is a RUP derivation,    *)
(* also across Forget and Restart.                                                             *)
CertStep == /\ (confl # NONE /\ confl' = NONE /\ L' # L) => RUP(DB, confl)
            /\ (status = "Indet" /\ status' = "Unsat") => RUP(DB, {})
CertRUP == [][CertStep]_vars
(* what the checker can verify: every new line follows by unit propagation from F and the lines before it *)
CertChainStep == \A line \in cert' \ cert : RUP(F \cup cert, line)
CertChain == [][CertChainStep]_vars

(* ---- liveness: the search terminates (never Indet for ever) --------------- *)
Fairness == WF_vars(Propagate \/ Conflict \/ Decide \/ Explain \/ Minimise \/ Backjump \/ Fail \/ Succeed)
LiveSpec == Spec /\ Fairness
Terminates == <>(status # "Indet" \/ nlearn = MaxLearn)
=============================================================================
