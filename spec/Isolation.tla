------------------------------ MODULE Isolation ------------------------------
(***************************************************************************)
(* Non-interference of independent solver instances (property C16) at the   *)
(* granularity of the "learn.scratch" gate of solver/learn.go: conflict     *)
(* analysis builds the learned clause in a scratch buffer (fill), then      *)
(* copies it out (copy).  The gate sits between the two.                    *)
(*                                                                          *)
(*   Shared = TRUE    one scratch buffer for all instances (the package-    *)
(*                    level bufLits of the code before commit 4f7dc3a):     *)
(*                    NoInterference is VIOLATED by the schedule            *)
(*                    A.fill B.fill A.copy                                  *)
(*   Shared = FALSE   one buffer per instance (the repaired code): holds    *)
(*                                                                          *)
(* A token names the instance that is released from its gate: it copies     *)
(* out, goes on searching, and - if it has another conflict - fills the     *)
(* buffer again and stops at the gate.  TLC enumerates every token          *)
(* sequence for K instances with C conflicts each; every maximal one is     *)
(* replayed on real solvers through the gate.                               *)
(***************************************************************************)
EXTENDS Integers, Sequences, FiniteSets, TLC, Json, CSV, IOUtils

CONSTANTS K, C, Shared
Inst == 1..K
VARIABLES nfill,    \* nfill[i]: conflicts analysed so far by instance i (it is at the gate of conflict nfill[i], or done)
          atgate,   \* atgate[i]: instance i waits at the gate
          scratch,  \* scratch[b]: content of buffer b = <<instance, conflict>> of the last fill
          out,      \* out[i]: what instance i copied out, in order
          sched
vars == <<nfill, atgate, scratch, out, sched>>

Buf(i) == IF Shared THEN 1 ELSE i
Init == /\ nfill = [i \in Inst |-> 1] /\ atgate = [i \in Inst |-> TRUE]
        /\ out = [i \in Inst |-> <<>>] /\ sched = <<>>
        (* initially every instance has run, concurrently, up to its first gate: the fills happened in some order *)
        /\ scratch \in [1..(IF Shared THEN 1 ELSE K) -> {<<i, 1>> : i \in Inst}]
        /\ \A i \in Inst : ~Shared => scratch[i] = <<i, 1>>

Release(i) == /\ atgate[i]
              /\ out' = [out EXCEPT ![i] = Append(out[i], scratch[Buf(i)])]          \* copy out
              /\ IF nfill[i] < C
                 THEN /\ nfill' = [nfill EXCEPT ![i] = nfill[i] + 1]                 \* next conflict: fill, stop at the gate
                      /\ scratch' = [scratch EXCEPT ![Buf(i)] = <<i, nfill[i] + 1>>]
                      /\ UNCHANGED atgate
                 ELSE /\ atgate' = [atgate EXCEPT ![i] = FALSE] /\ UNCHANGED <<nfill, scratch>>
              /\ sched' = Append(sched, i)
Next == \E i \in Inst : Release(i)
Spec == Init /\ [][Next]_vars

NoInterference == \A i \in Inst : \A j \in 1..Len(out[i]) : out[i][j] = <<i, j>>
AllDone == \A i \in Inst : ~atgate[i]
EmitFile == IF "VERIF_EMIT" \in DOMAIN IOEnv THEN IOEnv.VERIF_EMIT ELSE "iso_emit.ndjson"
EmitSched == AllDone => CSVWrite("%1$s", <<ToJson([k |-> K, c |-> C, sched |-> sched])>>, EmitFile)
=============================================================================
