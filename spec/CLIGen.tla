------------------------------- MODULE CLIGen -------------------------------
(***************************************************************************)
(* Every (suffix, file state, flag set) combination of the command line     *)
(* tool (C19): 5 x 3 x 32 = 480 configurations, each written out and run    *)
(* on the real executable with files generated for it.  Design-level checks *)
(* of the decision table CLI.tla: it is total, flags that must not matter   *)
(* do not, errors do not depend on the flags.                               *)
(***************************************************************************)
EXTENDS CLI, TLC, Sequences, Json, CSV, IOUtils

VARIABLES sfx, st, fl
vars == <<sfx, st, fl>>
Init == sfx \in Suffixes /\ st \in FileStates /\ fl \in SUBSET AllFlags
Next == UNCHANGED vars
Spec == Init /\ [][Next]_vars

Total == Expect(sfx, st, fl) \in Outcomes
(* -verbose and -cp never change the outcome; nor does -certified *)
Neutral == \A f \in {"-verbose", "-cp", "-certified"} : Expect(sfx, st, fl \cup {f}) = Expect(sfx, st, fl \ {f})
(* an unreadable file is an error whatever the flags *)
ErrorsFirst == (st # "wellformed") => Expect(sfx, st, fl) = "error"
(* a certificate is only judged when a verdict on a CNF file is printed *)
CertOnlyDecide == Certificate(sfx, fl) => (sfx = "cnf" /\ "-mus" \notin fl /\ "-count" \notin fl)

SetToSeq(S) == LET RECURSIVE Go(_)
                   Go(T) == IF T = {} THEN <<>> ELSE LET x == CHOOSE x \in T : TRUE IN <<x>> \o Go(T \ {x})
               IN Go(S)
EmitFile == IF "VERIF_EMIT" \in DOMAIN IOEnv THEN IOEnv.VERIF_EMIT ELSE "cli_emit.ndjson"
EmitCfg == CSVWrite("%1$s", <<ToJson([sfx |-> sfx, st |-> st, flags |-> SetToSeq(fl)])>>, EmitFile)
=============================================================================
