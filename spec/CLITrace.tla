------------------------------ MODULE CLITrace ------------------------------
(***************************************************************************)
(* Code -> spec for the command line tool (C19).  One case = one file       *)
(* (abstract content: n, cons with weights, cost function, or a formula as  *)
(* token list) plus a flag set; one event = one run of the executable,      *)
(* its standard output tokenised into answer lines.                         *)
(*                                                                          *)
(* What a run must do: CLI!Expect(suffix, file state, flag set).  Output:    *)
(* lines starting with "c" and lines the grammar does not know are          *)
(* ignored; what is judged is the truth of the answer                       *)
(* lines:  s <verdict>,  v <model>,  o <cost>,  the bare model count,       *)
(* certificate clauses, the printed MUS, the "name: bool" lines of .bf.     *)
(***************************************************************************)
EXTENDS BFParse, CLI, TLC, Json, IOUtils

Cases == ndJsonDeserialize(IOEnv.VERIF_TRACE)
OutFile == IOEnv.VERIF_OUT

VARIABLES ci, ei, mods, bad, nev
vars == <<ci, ei, mods, bad, nev>>
Case == Cases[ci]
Ev == Case.ev[ei]
N == Case.n

Hard(c) == {i \in 1..Len(c.cons) : c.cons[i].weight = 0}
M0(c) == IF c.kind = "bf"
         THEN (LET p == Parse(c.tokens, c.names) IN IF p.ok THEN TruthTable(p.f, c.n) ELSE {})
         ELSE {a \in Assignments(c.n) : \A i \in Hard(c) : SatC(a, AsWritten(c.cons[i]))}
RECURSIVE ViolFrom(_, _, _)
ViolFrom(c, a, i) == IF i > Len(c.cons) THEN 0
                     ELSE (IF c.cons[i].weight # 0 /\ ~SatC(a, AsWritten(c.cons[i])) THEN c.cons[i].weight ELSE 0)
                          + ViolFrom(c, a, i + 1)
CostOf(a) == IF Case.kind = "wcnf" THEN ViolFrom(Case, a, 1)
             ELSE IF Case.hasObj THEN Cost(a, Case.obj) ELSE 0
Best == CHOOSE k \in {CostOf(m) : m \in mods} : \A m \in mods : CostOf(m) >= k

(* the v line: a sequence of literals, one per variable 1..N in any order *)
(* DIMACS and WCNF headers declare the variables and every one of them must be listed; the OPB  *)
(* reader infers the variables from the terms, so the highest variables may be missing from    *)
(* the v line if they occur nowhere: the listed prefix must then be a model whatever they are  *)
VDom(v) == {Abs(v[i]) : i \in 1..Len(v)}
VModelOK(v) == /\ Len(v) = Cardinality(VDom(v))
               /\ IF Case.kind = "opb" THEN \E k \in 0..N : VDom(v) = 1..k ELSE VDom(v) = 1..N
VCompl(v) == {a \in Assignments(N) : \A i \in 1..Len(v) : a[Abs(v[i])] = (v[i] > 0)}

Optim == Case.kind \in {"opb", "wcnf"}

SolveWhy(e) ==
  IF e.exit # 0 THEN "cli-exit-status"
  ELSE IF e.nS # 1 THEN "cli-answer-lines"
  ELSE IF e.s = "UNSATISFIABLE" THEN (IF mods # {} THEN "cli-unsat-on-satisfiable" ELSE "")
  ELSE IF e.s \notin {"SATISFIABLE", "OPTIMUM FOUND"} THEN "cli-unknown-answer"
  ELSE IF mods = {} THEN "cli-sat-on-unsatisfiable"
  ELSE IF ~e.hasV \/ ~VModelOK(e.v) THEN "cli-model-line"
  ELSE IF ~(VCompl(e.v) \subseteq mods) THEN "cli-model-is-not-a-model"
  ELSE IF ~Optim THEN ""
  ELSE IF \E i \in 1..(Len(e.o) - 1) : e.o[i + 1] >= e.o[i] THEN "cli-costs-not-decreasing"
  ELSE IF Len(e.o) = 0 THEN "cli-no-cost-line"
  ELSE IF e.o[Len(e.o)] # Best THEN "cli-not-optimal"
  ELSE IF \E a \in VCompl(e.v) : CostOf(a) # e.o[Len(e.o)] THEN "cli-model-cost"
  ELSE ""

F0 == {Range(Case.cons[i].lits) : i \in 1..Len(Case.cons)}
CertWhy(e) ==
  IF \E i \in 1..Len(e.cert) : ~EntailsCl(mods, e.cert[i]) THEN "cli-certificate-line-not-entailed"
  ELSE IF FirstNonRUP(F0, e.cert) # 0 THEN "cli-certificate-line-not-rup"
  ELSE IF e.s = "UNSATISFIABLE" /\ ~RUP(F0 \cup {Range(e.cert[i]) : i \in 1..Len(e.cert)}, {}) THEN "cli-certificate-no-refutation"
  ELSE ""

(* the OPB reader infers the variables from the terms (the "#variable=" comment is not read): the *)
(* count is over the variables that occur in the file, the others being free                      *)
RECURSIVE MaxUsedFrom(_, _)
MaxUsedFrom(cs, i) == IF i > Len(cs) THEN 0 ELSE Max2(MaxVar(cs[i].lits), MaxUsedFrom(cs, i + 1))
UsedN == Max2(MaxUsedFrom(Case.cons, 1), IF Case.hasObj THEN MaxVar(Case.obj.lits) ELSE 0)
CountWhy(e) == IF e.exit # 0 THEN "cli-exit-status"
               ELSE IF Case.kind = "opb"
               THEN (IF Extend(Project(mods, UsedN), UsedN, N) # mods THEN "cli-count"
                     ELSE IF e.count # Cardinality(Project(mods, UsedN)) THEN "cli-count" ELSE "")
               ELSE IF e.count # Cardinality(mods) THEN "cli-count" ELSE ""

Fseq == [i \in 1..Len(Case.cons) |-> Case.cons[i].lits]
MusWhy(e) ==
  IF mods # {} THEN (IF e.hasMus THEN "cli-mus-of-satisfiable" ELSE "")
  ELSE IF e.exit # 0 THEN "cli-exit-status"
  ELSE IF ~e.hasMus THEN "cli-no-mus"
  ELSE IF e.mus.nb # Len(e.mus.clauses) THEN "cli-mus-header"
  ELSE IF ~SubMultiset(e.mus.clauses, Fseq) THEN "cli-mus-not-subset"
  ELSE IF \E i \in 1..Len(e.mus.clauses) : MaxVar(e.mus.clauses[i]) > N THEN "cli-mus-not-subset"
  ELSE IF ~UnsatCl(N, e.mus.clauses) THEN "cli-mus-satisfiable"
  ELSE IF \E k \in 1..Len(e.mus.clauses) : UnsatCl(N, Without(e.mus.clauses, k)) THEN "cli-mus-not-minimal"
  ELSE ""

(* .bf: "SATISFIABLE" then one "name: bool" line per variable, or "UNSATISFIABLE" *)
Agree(dom, val) == {a \in Assignments(N) : \A j \in 1..Len(dom) : dom[j] # 0 => a[dom[j]] = val[j]}
BfWhy(e) ==
  IF e.exit # 0 THEN "cli-exit-status"
  ELSE IF e.nS # 1 THEN "cli-answer-lines"
  ELSE IF e.s = "UNSATISFIABLE" THEN (IF mods # {} THEN "cli-unsat-on-satisfiable" ELSE "")
  ELSE IF e.s # "SATISFIABLE" THEN "cli-unknown-answer"
  ELSE IF mods = {} THEN "cli-sat-on-unsatisfiable"
  ELSE IF ~(Agree(e.dom, e.val) \subseteq mods) THEN "cli-model-is-not-a-model"
  ELSE ""

ErrWhy(e) == IF e.exit = 0 THEN "cli-exit-zero-on-error"
             ELSE IF e.nS # 0 THEN "cli-answer-on-error" ELSE ""

First(a, b2) == IF a # "" THEN a ELSE b2
(* what the run must do is read off the decision table CLI.tla from the suffix of the file, the   *)
(* state of the file and the SET of flags of the case; the content fields of the case (kind, cons, *)
(* tokens) must describe a file of that suffix                                                     *)
FlagSet == Range(Case.flags)
X == Expect(Case.sfx, Case.st, FlagSet)
CaseOK == /\ Case.sfx \in Suffixes /\ Case.st \in FileStates /\ FlagSet \subseteq AllFlags
          /\ Case.kind = (IF X = "error" THEN "bad" ELSE Case.sfx)
Why == CASE Ev.op = "skip"    -> ""
         [] ~CaseOK           -> "harness:case-does-not-match-its-configuration"
         [] Ev.op = "crash"   -> "crash"
         [] Ev.op = "timeout" -> "timeout"
         [] Ev.op # "run"     -> "unknown-event"
         [] X = "error"       -> ErrWhy(Ev)
         [] X = "unspecified" -> ""
         [] X = "bf"          -> BfWhy(Ev)
         [] X = "count"       -> CountWhy(Ev)
         [] X = "mus"         -> MusWhy(Ev)
         [] X = "decide"      -> First(SolveWhy(Ev), IF Certificate(Case.sfx, FlagSet) THEN CertWhy(Ev) ELSE "")
         [] OTHER             -> SolveWhy(Ev)

Init == /\ ci = 1 /\ ei = 1 /\ bad = <<>> /\ nev = 0
        /\ mods = IF Len(Cases) >= 1 THEN M0(Cases[1]) ELSE {}
Step == /\ ci <= Len(Cases) /\ ei <= Len(Case.ev)
        /\ LET why == Why IN
           bad' = IF why = "" THEN bad ELSE Append(bad, <<Case.id, ei, why>>)
        /\ ei' = ei + 1 /\ nev' = nev + 1 /\ UNCHANGED <<ci, mods>>
NextCase == /\ ci <= Len(Cases) /\ ei > Len(Case.ev)
            /\ ci' = ci + 1 /\ ei' = 1 /\ UNCHANGED <<bad, nev>>
            /\ mods' = IF ci + 1 <= Len(Cases) THEN M0(Cases[ci + 1]) ELSE {}
Next == Step \/ NextCase
Spec == Init /\ [][Next]_vars
Done == ci > Len(Cases)
Emit == Done => JsonSerialize(OutFile, [cases |-> Len(Cases), events |-> nev, bad |-> bad])
=============================================================================
