SPECIFICATION Spec
CONSTANTS
  K = 3
  W = 2
  MinW = 0
INVARIANTS Sound
CHECK_DEADLOCK FALSE
