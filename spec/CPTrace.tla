------------------------------- MODULE CPTrace -------------------------------
(***************************************************************************)
(* Code -> spec for the arithmetic of the cutting-planes analysis (C14):    *)
(* the real functions roundToOne / divideBy, clash and SimplifyPB, called   *)
(* through add-only hooks (solver.VerifRoundToOne, VerifClash,              *)
(* VerifSimplifyPB, build tag verif), are compared input by input with the  *)
(* functions of CPOps.tla that CuttingPlanes.tla reasons about.             *)
(*                                                                          *)
(* Events:  round  [w, d, x, sigma]  ->  [rw, rd]                           *)
(*          clash  [w, d, w2, d2]    ->  [rw, rd]                           *)
(*          split  [w, d]            ->  [units, rlits, rws, rd, ok]        *)
(***************************************************************************)
EXTENDS CPOps, FiniteSets, TLC, Json, IOUtils

Cases == ndJsonDeserialize(IOEnv.VERIF_TRACE)
OutFile == IOEnv.VERIF_OUT
VARIABLES ci, ei, bad, nev
vars == <<ci, ei, bad, nev>>
Case == Cases[ci]
Ev == Case.ev[ei]

RoundWhy(e) ==
  LET g == GRound([w |-> e.w, d |-> e.d], e.x, e.sigma) IN
  IF ~g.defined THEN ""                      \* nothing is claimed when the degree is used up by the removal
  ELSE IF e.rw # g.w THEN "round-weights"
  ELSE IF e.rd # g.d THEN "round-degree"
  ELSE ""

ClashWhy(e) ==
  LET g == GClash([w |-> e.w, d |-> e.d], [w |-> e.w2, d |-> e.d2]) IN
  IF e.rw # g.w THEN "clash-weights" ELSE IF e.rd # g.d THEN "clash-degree" ELSE ""

(* SimplifyPB: the forced literals are exactly those whose weight exceeds total - degree; what is     *)
(* kept (units and rest) has the models of the constraint                                              *)
N(e) == Len(e.w)
Asg(e) == [1..N(e) -> BOOLEAN]
LitTrue(a, l) == IF l > 0 THEN a[l] ELSE ~a[-l]
RECURSIVE SumW(_, _, _)
SumW(w, a, v) == IF v = 0 THEN 0
                 ELSE SumW(w, a, v - 1) + (IF w[v] > 0 /\ a[v] THEN w[v] ELSE IF w[v] < 0 /\ ~a[v] THEN -w[v] ELSE 0)
RECURSIVE SumL(_, _, _, _)
SumL(ls, ws, a, i) == IF i = 0 THEN 0 ELSE SumL(ls, ws, a, i - 1) + (IF LitTrue(a, ls[i]) THEN ws[i] ELSE 0)
Total(w) == GSumIf(w, LAMBDA v : TRUE, Len(w))
ForcedLits(e) == {IF e.w[v] > 0 THEN v ELSE -v : v \in {u \in 1..N(e) : e.w[u] # 0 /\ GAbs(e.w[u]) > Total(e.w) - e.d}}
SplitWhy(e) ==
  IF e.ok # (Total(e.w) >= e.d) THEN "split-satisfiable-flag"
  ELSE IF ~e.ok THEN ""
  ELSE IF {e.units[i] : i \in 1..Len(e.units)} # ForcedLits(e) THEN "split-forced-literals"
  ELSE IF {a \in Asg(e) : SumW(e.w, a, N(e)) >= e.d}
          # {a \in Asg(e) : /\ \A i \in 1..Len(e.units) : LitTrue(a, e.units[i])
                            /\ (Len(e.rlits) > 0 => SumL(e.rlits, e.rws, a, Len(e.rlits)) >= e.rd)}
       THEN "split-models-differ"
  ELSE ""

Why == CASE Ev.op = "round" -> RoundWhy(Ev)
         [] Ev.op = "clash" -> ClashWhy(Ev)
         [] Ev.op = "split" -> SplitWhy(Ev)
         [] Ev.op = "crash" -> "crash"
         [] Ev.op = "timeout" -> "timeout"
         [] OTHER -> "unknown-event"

Init == ci = 1 /\ ei = 1 /\ bad = <<>> /\ nev = 0
Step == /\ ci <= Len(Cases) /\ ei <= Len(Case.ev)
        /\ LET why == Why IN bad' = IF why = "" THEN bad ELSE Append(bad, <<Case.id, ei, why>>)
        /\ ei' = ei + 1 /\ nev' = nev + 1 /\ UNCHANGED ci
NextCase == /\ ci <= Len(Cases) /\ ei > Len(Case.ev)
            /\ ci' = ci + 1 /\ ei' = 1 /\ UNCHANGED <<bad, nev>>
Next == Step \/ NextCase
Spec == Init /\ [][Next]_vars
Done == ci > Len(Cases)
Emit == Done => JsonSerialize(OutFile, [cases |-> Len(Cases), events |-> nev, bad |-> bad])
=============================================================================
