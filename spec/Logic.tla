------------------------------- MODULE Logic -------------------------------
(***************************************************************************)
(* Meaning.  The only place where the semantics of literals, assignments,  *)
(* linear constraints "as the caller wrote them", cost functions, soft     *)
(* constraints, unit propagation, RUP and minimal unsatisfiability is      *)
(* written down.  Everything else in /verif/spec builds on this module;    *)
(* every verdict of every check is TLC evaluating these definitions on     *)
(* values produced by the real code.  No state.                            *)
(*                                                                         *)
(* Conventions                                                             *)
(*   literal       non-zero integer, -v is the negation of variable v      *)
(*   assignment    function 1..n -> BOOLEAN (a JSON array of booleans)     *)
(*   constraint    [lits, w, rel, rhs]: Sum{w[i] : lits[i] true} rel rhs   *)
(*                 with rel one of ">=", "<=", "=" and w, rhs any integers *)
(*   clause        sequence of literals (repetitions and complementary     *)
(*                 pairs allowed, <<>> is the empty clause)                *)
(***************************************************************************)
EXTENDS Integers, Sequences, FiniteSets

Abs(x) == IF x < 0 THEN -x ELSE x
Max2(a, b) == IF a >= b THEN a ELSE b
Min2(a, b) == IF a <= b THEN a ELSE b
VarOf(l) == Abs(l)
Range(s) == {s[i] : i \in 1..Len(s)}

Assignments(n) == [1..n -> BOOLEAN]
LitTrue(a, l) == IF l > 0 THEN a[l] ELSE ~a[-l]

(* ---- linear constraints as written ------------------------------------ *)
RECURSIVE LhsTo(_, _, _)
LhsTo(a, c, i) == IF i = 0 THEN 0
                  ELSE LhsTo(a, c, i - 1) + (IF LitTrue(a, c.lits[i]) THEN c.w[i] ELSE 0)
Lhs(a, c) == LhsTo(a, c, Len(c.lits))
SatC(a, c) == LET v == Lhs(a, c) IN
              CASE c.rel = ">=" -> v >= c.rhs
                [] c.rel = "<=" -> v <= c.rhs
                [] c.rel = "="  -> v = c.rhs
SatAll(a, F) == \A i \in 1..Len(F) : SatC(a, F[i])
Models(n, F) == {a \in Assignments(n) : SatAll(a, F)}

(* a clause (sequence of literals) as a constraint *)
Ones(k) == [i \in 1..k |-> 1]

(* ---- the meaning of the public constraint constructors ------------------ *)
(* A constructor record [k, lits, w, rhs] is how a caller wrote a constraint: *)
(*   clause      lits[1] \/ ... \/ lits[k]            (AtLeast1, PropClause, NewClause)   *)
(*   atleast     at least rhs of lits are true        (AtLeast, CardConstr, NewCardClause) *)
(*   atmost      at most rhs of lits are true         (AtMost)                             *)
(*   atmost1     at most one of lits is true          (AtMost1)                            *)
(*   exactly1    exactly one of lits is true          (Exactly1)                           *)
(*   gteq/lteq/eq   Sum w[i]*lits[i] >= / <= / = rhs  (GtEq, LtEq, Eq, NewPBClause, OPB)   *)
AsWritten(c) ==
  LET one == Ones(Len(c.lits)) IN
  CASE c.k = "clause"   -> [lits |-> c.lits, w |-> one, rel |-> ">=", rhs |-> 1]
    [] c.k = "atleast"  -> [lits |-> c.lits, w |-> one, rel |-> ">=", rhs |-> c.rhs]
    [] c.k = "atmost"   -> [lits |-> c.lits, w |-> one, rel |-> "<=", rhs |-> c.rhs]
    [] c.k = "atmost1"  -> [lits |-> c.lits, w |-> one, rel |-> "<=", rhs |-> 1]
    [] c.k = "exactly1" -> [lits |-> c.lits, w |-> one, rel |-> "=",  rhs |-> 1]
    [] c.k = "gteq"     -> [lits |-> c.lits, w |-> c.w, rel |-> ">=", rhs |-> c.rhs]
    [] c.k = "lteq"     -> [lits |-> c.lits, w |-> c.w, rel |-> "<=", rhs |-> c.rhs]
    [] c.k = "eq"       -> [lits |-> c.lits, w |-> c.w, rel |-> "=",  rhs |-> c.rhs]
AsWrittenAll(cs) == [i \in 1..Len(cs) |-> AsWritten(cs[i])]
ClauseC(cl) == [lits |-> cl, w |-> Ones(Len(cl)), rel |-> ">=", rhs |-> 1]
AtLeastC(ls, k) == [lits |-> ls, w |-> Ones(Len(ls)), rel |-> ">=", rhs |-> k]
SatCl(a, cl) == \E i \in 1..Len(cl) : LitTrue(a, cl[i])
ClauseModels(n, F) == {a \in Assignments(n) : \A i \in 1..Len(F) : SatCl(a, F[i])}
SatLits(a, ls) == \A i \in 1..Len(ls) : LitTrue(a, ls[i])

RECURSIVE MaxVarTo(_, _)
MaxVarTo(ls, i) == IF i = 0 THEN 0 ELSE Max2(Abs(ls[i]), MaxVarTo(ls, i - 1))
MaxVar(ls) == MaxVarTo(ls, Len(ls))

(* the models over 1..n extended to 1..n2 (new variables are free) *)
Extend(M, n, n2) ==
  IF n2 <= n THEN M
  ELSE {[v \in 1..n2 |-> IF v <= n THEN m[v] ELSE e[v]] : m \in M, e \in [(n + 1)..n2 -> BOOLEAN]}
Restrict(a, k) == [v \in 1..k |-> a[v]]
Project(M, k) == {Restrict(m, k) : m \in M}

(* ---- cost functions ---------------------------------------------------- *)
(* obj = [lits, w]: cost of a = Sum{w[i] : lits[i] true under a}          *)
Cost(a, obj) == LhsTo(a, [lits |-> obj.lits, w |-> obj.w], Len(obj.lits))
MinCost(M, obj) == CHOOSE k \in {Cost(m, obj) : m \in M} : \A m \in M : Cost(m, obj) >= k

(* soft = sequence of [c, weight]; weight of the soft constraints a violates *)
RECURSIVE ViolTo(_, _, _)
ViolTo(a, soft, i) == IF i = 0 THEN 0
                      ELSE ViolTo(a, soft, i - 1) + (IF SatC(a, soft[i].c) THEN 0 ELSE soft[i].weight)
Violated(a, soft) == ViolTo(a, soft, Len(soft))
MinViol(M, soft) == CHOOSE k \in {Violated(m, soft) : m \in M} : \A m \in M : Violated(m, soft) >= k

(* ---- entailment ---------------------------------------------------------- *)
EntailsCl(M, cl) == \A m \in M : SatCl(m, cl)
EntailsC(M, c) == \A m \in M : SatC(m, c)

(* ---- unit propagation on clause sets (sets of sets of literals) --------- *)
(* sigma: set of literals that are true; the value {0} stands for conflict *)
CONFLICT == {0}
RECURSIVE UP(_, _)
UP(F, sigma) ==
  IF \E c \in F : \A l \in c : -l \in sigma THEN CONFLICT
  ELSE LET units == {c \in F : (\A l \in c : l \notin sigma)
                               /\ Cardinality({l \in c : -l \notin sigma}) = 1}
       IN IF units = {} THEN sigma
          ELSE UP(F, sigma \cup {CHOOSE l \in c : -l \notin sigma : c \in units})
ClSet(cl) == Range(cl)
(* a tautological clause is never falsified nor unit in a consistent sigma, harmless *)
RUP(F, c) == IF \E l \in c : -l \in c THEN TRUE ELSE UP(F, {-l : l \in c}) = CONFLICT

(* certificate = sequence of clauses (sequences of literals) *)
RECURSIVE CertOKFrom(_, _, _)
CertOKFrom(F, cert, i) ==
  IF i > Len(cert) THEN 0
  ELSE LET c == ClSet(cert[i]) IN
       IF RUP(F, c) THEN CertOKFrom(F \cup {c}, cert, i + 1) ELSE i
(* 0 if every line is RUP w.r.t. F and the earlier lines, else the index of the first bad line *)
FirstNonRUP(F, cert) == CertOKFrom(F, cert, 1)

(* ---- propagation by linear constraints under a partial assignment ------- *)
(* normalised constraint [lits, w, d] with w > 0: Sum{w[i] : lits[i] true} >= d.  *)
(* sigma = set of true literals.  slack = Sum{w[i] : lits[i] not false} - d      *)
RECURSIVE SlackTo(_, _, _)
SlackTo(c, sigma, i) == IF i = 0 THEN -c.d
                        ELSE SlackTo(c, sigma, i - 1) + (IF -c.lits[i] \in sigma THEN 0 ELSE c.w[i])
Slack(c, sigma) == SlackTo(c, sigma, Len(c.lits))
Falsified(c, sigma) == Slack(c, sigma) < 0
Forces(c, sigma, l) == /\ l \notin sigma /\ -l \notin sigma
                       /\ \E i \in 1..Len(c.lits) : c.lits[i] = l /\ c.w[i] > Slack(c, sigma)
NormC(c) == [lits |-> c.lits, w |-> c.w, rel |-> ">=", rhs |-> c.d]

(* ---- minimal unsatisfiability (clause sequences = multisets) ------------ *)
Count(seq, x) == Cardinality({i \in 1..Len(seq) : seq[i] = x})
(* as multisets of literal SETS (clause identity = its set of literals as written order-insensitively) *)
SubMultiset(U, F) == \A i \in 1..Len(U) :
                        Cardinality({j \in 1..Len(U) : ClSet(U[j]) = ClSet(U[i])})
                          <= Cardinality({j \in 1..Len(F) : ClSet(F[j]) = ClSet(U[i])})
(* exact occurrence (same literal sequence) *)
SubMultisetExact(U, F) == \A i \in 1..Len(U) : Count(U, U[i]) <= Count(F, U[i])
Without(seq, k) == [i \in 1..(Len(seq) - 1) |-> IF i < k THEN seq[i] ELSE seq[i + 1]]
UnsatCl(n, F) == ClauseModels(n, F) = {}
MinimalUnsat(n, U) == UnsatCl(n, U) /\ \A k \in 1..Len(U) : ~UnsatCl(n, Without(U, k))
(* the same in one pass over the assignments (used by the trace modules above 8 variables):      *)
(* FalsSets = the sets of members falsified by some assignment.  U is unsatisfiable iff no        *)
(* assignment falsifies nothing; member k is critical iff some assignment falsifies only k.       *)
(* MUS.tla checks FalsLemma for every clause sequence it enumerates.                              *)
FalsSets(n, U) == {{i \in 1..Len(U) : ~SatCl(a, U[i])} : a \in Assignments(n)}
UnsatW(W) == {} \notin W
MinimalW(W, len) == \A k \in 1..len : {k} \in W
FalsLemma(n, U) == LET W == FalsSets(n, U) IN
                   /\ UnsatW(W) = UnsatCl(n, U)
                   /\ (UnsatW(W) /\ MinimalW(W, Len(U))) = MinimalUnsat(n, U)
=============================================================================
