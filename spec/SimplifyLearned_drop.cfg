SPECIFICATION Spec
CONSTANTS
  N = 3
  W = 3
  KeepRest = FALSE
INVARIANTS NothingLost
CHECK_DEADLOCK FALSE
