SPECIFICATION Spec
CONSTANTS
  A = 2
  Shortcut = FALSE
  FixedF = ""
  N = 3
  K = 2
  MaxLen = 3
  MaxLearn = 3
  MaxRestart = 1
INVARIANTS TypeOK TrailConsistent ReasonForces SatSound UnsatSound LearnEntailed ConflEntailed
PROPERTY CertRUP
CHECK_DEADLOCK FALSE
