SPECIFICATION Spec
CONSTANTS
  EmitEarly = TRUE
  N = 3
  K = 3
  MaxLen = 3
  MaxLearn = 4
  MaxRestart = 1
INVARIANTS TypeOK
PROPERTIES CertChain
CHECK_DEADLOCK FALSE
