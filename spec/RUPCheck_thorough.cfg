SPECIFICATION Spec
CONSTANTS
  N = 2
  MaxF = 3
  MaxC = 2
INVARIANTS Sound Complete Restored AcceptedEntailed TaggedUnsat EmitPair
CHECK_DEADLOCK FALSE
