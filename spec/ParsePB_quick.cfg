SPECIFICATION Spec
CONSTANTS
  NV = 3
  W = 2
  MaxK = 2
  L = 2
  Repass = "fixpoint"
INVARIANTS ModelsPreserved Fixpoint StatusSat EmitInit
CHECK_DEADLOCK FALSE
