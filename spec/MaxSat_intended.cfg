SPECIFICATION Spec
CONSTANTS
  N = 2
  MaxC = 2
  Blocking = "degree"
INVARIANTS EncodingCorrect EmitInst
CHECK_DEADLOCK FALSE
