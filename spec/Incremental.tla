------------------------------ MODULE Incremental ------------------------------
(***************************************************************************)
(* Why Assume must keep the top-level facts (property C10, design-level     *)
(* counterpart of commits a77284d and 0c50eb0).                             *)
(*                                                                          *)
(* After parsing, a solver knows its problem as: the non-unit clauses, in   *)
(* its clause database, and the unit clauses ONLY as literals on the trail  *)
(* at level 1 ("facts"; learned unit clauses join them).  Solving under     *)
(* assumptions ls means deciding  database AND trail:                       *)
(*                                                                          *)
(*   Keep = TRUE    Assume(ls) resets the trail to  facts + ls  (an         *)
(*                  assumption that contradicts a fact or another           *)
(*                  assumption makes the round Unsat)                       *)
(*   Keep = FALSE   Assume(ls) resets the trail to  ls  alone, a later      *)
(*                  assumption on the same variable overwriting an earlier  *)
(*                  one (the code before a77284d)                           *)
(*                                                                          *)
(* Refinement property: the answer of every round equals the answer of the  *)
(* abstract machine SolverAPI: Sat iff some model of the WHOLE problem      *)
(* satisfies this round's assumptions.  Checked for every CNF over N        *)
(* variables with at most K clauses (unit clauses included) and every       *)
(* sequence of R assumption lists of at most 2 literals.                    *)
(***************************************************************************)
EXTENDS Logic, TLC

CONSTANTS N, K, R, Keep
Lit == {v : v \in 1..N} \cup {-v : v \in 1..N}
ClauseU == {<<l>> : l \in Lit} \cup {<<a, b>> : a \in Lit, b \in Lit}
AsmU == {<<>>} \cup {<<l>> : l \in Lit} \cup {<<a, b>> : a \in Lit, b \in Lit}
VARIABLES F, round, trail, dead, answer, asm
vars == <<F, round, trail, dead, answer, asm>>

Units(f) == {f[i][1] : i \in {j \in 1..Len(f) : Len(f[j]) = 1}}
NonUnit(f) == SelectSeq(f, LAMBDA c : Len(c) > 1)
Contradictory(S) == \E l \in S : -l \in S

Init == /\ F \in UNION {[1..k -> ClauseU] : k \in 0..K}
        /\ round = 0 /\ trail = {} /\ dead = FALSE /\ answer = "none" /\ asm = <<>>

(* what the solver decides: its database (non-unit clauses) under its trail *)
SolverModels(tr) == {a \in ClauseModels(N, NonUnit(F)) : \A l \in tr : LitTrue(a, l)}
(* last assumption on a variable wins when nothing checks (Keep = FALSE) *)
Overwrite(ls) == {ls[i] : i \in {j \in 1..Len(ls) : \A j2 \in (j + 1)..Len(ls) : Abs(ls[j2]) # Abs(ls[j])}}

AssumeSolve(ls) ==
  /\ round < R /\ round' = round + 1 /\ asm' = ls
  /\ LET facts == Units(F)
         tr == IF Keep THEN facts \cup Range(ls) ELSE Overwrite(ls)
         bad == Keep /\ Contradictory(tr)
     IN /\ trail' = tr
        /\ dead' = bad
        /\ answer' = IF bad \/ SolverModels(tr) = {} THEN "UNSAT" ELSE "SAT"
  /\ UNCHANGED F
Next == \E ls \in AsmU : AssumeSolve(ls)
Spec == Init /\ [][Next]_vars

(* the contract of SolverAPI *)
Expected == IF {m \in ClauseModels(N, F) : SatLits(m, asm)} = {} THEN "UNSAT" ELSE "SAT"
RefinesAPI == round > 0 => answer = Expected
=============================================================================
