SPECIFICATION Spec
CONSTANTS
  N = 2
  MaxLen = 3
  Minimise = TRUE
INVARIANTS ResultIsMUS ErrorIffSat Lemma EmitF
CHECK_DEADLOCK FALSE
