SPECIFICATION Spec
CONSTANT N = 3
INVARIANTS ReplacementSound EmitF
CHECK_DEADLOCK FALSE
