----------------------------- MODULE FormatsGen -----------------------------
(***************************************************************************)
(* Small-scope enumeration of texts for C13 (spec -> code).                 *)
(*                                                                          *)
(* Kind = "cnf" / "wcnf": EVERY token string of length <= L over the        *)
(* alphabet of the format (numbers, the clause terminator, line ends,       *)
(* comment lines, the top weight) is classified by the reference reader of  *)
(* Formats.tla; the well-formed ones are rendered to bytes and written out  *)
(* with the header their content requires.  This covers every layout at     *)
(* that size: clauses spanning lines, several clauses on one line, comments *)
(* between clauses, a last line without newline, trailing empty lines.      *)
(*                                                                          *)
(* Kind = "opb": texts are built statement by statement (comment line,      *)
(* objective line, constraint lines over a bounded universe of terms,       *)
(* relations and right-hand sides, at most MaxTerms terms in all); the      *)
(* reference reader must give back exactly the statements that were put in  *)
(* (RoundTrip) - a check of the reference itself - and every text is        *)
(* written out for replay.                                                  *)
(*                                                                          *)
(* Design-level checks of the reference readers: layout is irrelevant (a    *)
(* well-formed text means what it means with every comment line removed     *)
(* and with every line end removed where the format is not line based).    *)
(***************************************************************************)
EXTENDS Formats, Json, CSV, IOUtils

CONSTANTS Kind, L, NV, MaxTerms, MaxCons,
          Coefs, OVars, Rhs     \* (opb) the coefficient, variable and right-hand side tokens in use

VARIABLES ts, st     \* the tokens so far; (opb) the statements put in so far
vars == <<ts, st>>

CnfAlphabet  == {"1", "-1", "2", "-2", "0", "NL", "C"}
WcnfAlphabet == {"1", "-1", "2", "-2", "0", "NL", "C", "T", "3"}

(* ---- opb statement universe -------------------------------------------------- *)
Term1 == {<<c, v>> : c \in Coefs, v \in OVars}
TermSeqs(k) == IF k = 1 THEN Term1 ELSE {a \o b : a \in Term1, b \in Term1}
ConLines(k) == {t \o <<r, h, ";">> : t \in TermSeqs(k), r \in {">=", "="}, h \in Rhs}
ObjLines == {<<"min:">> \o t \o <<";">> : t \in Term1}
NbTerms(line) == Cardinality({i \in 1..Len(line) : IsVar(line[i])})
RECURSIVE SumTerms(_, _)
SumTerms(s, i) == IF i > Len(s) THEN 0 ELSE NbTerms(s[i]) + SumTerms(s, i + 1)
NbCons(s) == Cardinality({i \in 1..Len(s) : s[i] # <<"C">> /\ s[i][1] # "min:"})
NbComments(s) == Cardinality({i \in 1..Len(s) : s[i] = <<"C">>})
Closed == ts # <<>> /\ ts[Len(ts)] # "NL" /\ st # <<>> /\ st[Len(st)] = <<"EOF">>

Init == ts = <<>> /\ st = <<>>

NextBlind == /\ Len(ts) < L
             /\ \E t \in (IF Kind = "cnf" THEN CnfAlphabet ELSE WcnfAlphabet) : ts' = Append(ts, t)
             /\ UNCHANGED st

(* a statement is appended with its line end; the last one may come without ("EOF" marks the end) *)
NextOpb == /\ ~(st # <<>> /\ st[Len(st)] = <<"EOF">>)
           /\ \E line \in {<<"C">>} \cup ObjLines \cup ConLines(1) \cup ConLines(2) :
                /\ line = <<"C">> => NbComments(st) < 1
                /\ line[1] = "min:" => \A i \in 1..Len(st) : st[i] = <<"C">>     \* the objective comes first
                /\ (line # <<"C">> /\ line[1] # "min:") => NbCons(st) < MaxCons
                /\ SumTerms(st, 1) + NbTerms(line) <= MaxTerms
                /\ \/ ts' = ts \o line \o <<"NL">> /\ st' = Append(st, line)
                   \/ ts' = ts \o line /\ st' = Append(Append(st, line), <<"EOF">>)

Next == IF Kind = "opb" THEN NextOpb ELSE NextBlind
Spec == Init /\ [][Next]_vars

(* ---- reading what was generated ------------------------------------------------ *)
NbZero == Cardinality({i \in 1..Len(ts) : ts[i] = "0"})
WLines == SelectSeq(Lines(LexSeq(ts)), LAMBDA l : ~IsComment(l) /\ l # <<>>)
UsesTop == \E i \in 1..Len(ts) : ts[i] = "T"
Strip(s) == SelectSeq(s, LAMBDA t : t \notin {"NL", "C"})
(* the lines of a string token sequence, as sequences of strings *)
RECURSIVE SLinesFrom(_, _, _, _)
SLinesFrom(s, i, cur, acc) ==
  IF i > Len(s) THEN (IF cur = <<>> THEN acc ELSE Append(acc, cur))
  ELSE IF s[i] = "NL" THEN SLinesFrom(s, i + 1, <<>>, Append(acc, cur))
  ELSE SLinesFrom(s, i + 1, Append(cur, s[i]), acc)
NoComment(s) == LET ls == SLinesFrom(s, 1, <<>>, <<>>)
                    keep == SelectSeq(ls, LAMBDA l : l # <<"C">>)
                    RECURSIVE Join(_, _)
                    Join(x, i) == IF i > Len(x) THEN <<>> ELSE x[i] \o <<"NL">> \o Join(x, i + 1)
                IN Join(keep, 1)

CnfR == CnfRead(NV, NbZero, ts)
WcnfR(withTop) == WcnfRead(NV, Len(WLines), withTop, ts)
OpbR == OpbRead(NV, ts)

(* layout is irrelevant *)
CnfLayout  == (Kind = "cnf" /\ CnfR.wf) =>
                 LET r == CnfRead(NV, NbZero, Strip(ts)) IN r.wf /\ r.clauses = CnfR.clauses
WcnfLayout == (Kind = "wcnf" /\ WcnfR(TRUE).wf) =>
                 LET r == WcnfRead(NV, Len(WLines), TRUE, NoComment(ts)) IN r.wf /\ r.cons = WcnfR(TRUE).cons
(* a file without hard clauses means the same with and without a top weight in the header *)
WcnfTop    == (Kind = "wcnf" /\ ~UsesTop) => WcnfR(TRUE) = WcnfR(FALSE)
(* the opb reader gives back the statements that were put in *)
StCons == SelectSeq(st, LAMBDA l : l # <<"C">> /\ l # <<"EOF">> /\ l[1] # "min:")
StObj  == SelectSeq(st, LAMBDA l : l[1] = "min:")
RoundTrip == Kind = "opb" =>
               /\ OpbR.wf
               /\ Len(OpbR.cons) = Len(StCons)
               /\ \A i \in 1..Len(StCons) : OpbR.cons[i] = ConLine(StCons[i])
               /\ OpbR.hasObj = (StObj # <<>>)
               /\ OpbR.hasObj => OpbR.obj.lits = TermLits(LexSeq(StObj[1]), 2, Len(StObj[1]))

(* ---- emission ------------------------------------------------------------------- *)
EmitFile == IF "VERIF_EMIT" \in DOMAIN IOEnv THEN IOEnv.VERIF_EMIT ELSE "formats_emit.ndjson"
EmitCnf  == (Kind = "cnf" /\ CnfR.wf) =>
              CSVWrite("%1$s", <<ToJson([kind |-> "cnf", n |-> NV, m |-> NbZero, withTop |-> FALSE, ts |-> ts,
                                         text |-> CnfText(NV, NbZero, ts)])>>, EmitFile)
EmitWcnf == (Kind = "wcnf" /\ Len(WLines) >= 1) =>
              /\ WcnfR(TRUE).wf =>
                   CSVWrite("%1$s", <<ToJson([kind |-> "wcnf", n |-> NV, m |-> Len(WLines), withTop |-> TRUE, ts |-> ts,
                                              text |-> WcnfText(NV, Len(WLines), TRUE, ts)])>>, EmitFile)
              /\ WcnfR(FALSE).wf =>
                   CSVWrite("%1$s", <<ToJson([kind |-> "wcnf", n |-> NV, m |-> Len(WLines), withTop |-> FALSE, ts |-> ts,
                                              text |-> WcnfText(NV, Len(WLines), FALSE, ts)])>>, EmitFile)
EmitOpb  == (Kind = "opb" /\ ts # <<>>) =>
              CSVWrite("%1$s", <<ToJson([kind |-> "opb", n |-> NV, m |-> Len(StCons), withTop |-> FALSE, ts |-> ts,
                                         text |-> OpbText(NV, Len(StCons), ts)])>>, EmitFile)
=============================================================================
