SPECIFICATION Spec
CONSTANTS
  Kind = "opb"
  L = 0
  NV = 2
  MaxTerms = 2
  MaxCons = 1
  Coefs = {"+1", "-1", "2"}
  OVars = {"x1", "~x1", "x2"}
  Rhs = {"0", "1", "+2"}
INVARIANTS RoundTrip EmitOpb
CHECK_DEADLOCK FALSE
