SPECIFICATION Spec
CONSTANT L = 5
INVARIANTS Total NotClosedUnderNothing WrapOK NegOK EmitTs
CHECK_DEADLOCK FALSE
