SPECIFICATION Spec
CONSTANTS
  NV = 3
  MaxK = 3
  L = 2
  Repass = "fixpoint"
  TrueLit = "recount"
INVARIANTS ModelsPreserved
CHECK_DEADLOCK FALSE
