------------------------------ MODULE SubsetSync ------------------------------
(***************************************************************************)
(* The goroutine protocol of explain.UnsatSubset (property C16, second      *)
(* half: data-race freedom of the library's own goroutines).                *)
(*                                                                          *)
(*   solver goroutine   sends the L certificate lines on an unbuffered      *)
(*                      channel, then WRITES status, then closes the        *)
(*                      channel                                             *)
(*   caller             receives lines and checks them; it may stop early   *)
(*                      (at line StopAt: the empty clause or a line it      *)
(*                      cannot derive); then READS status                   *)
(*                                                                          *)
(*   Drain = FALSE   the caller reads status right after it stopped (the    *)
(*                   code before commit c0f8434): the read can happen       *)
(*                   before or concurrently with the write (NoRace is       *)
(*                   violated) and the goroutine stays blocked for ever on  *)
(*                   its next send (Leak)                                   *)
(*   Drain = TRUE    the caller first receives until the channel is closed  *)
(*                   (the repaired code): the close happens after the write *)
(*                   and the read after the caller saw the close, so the    *)
(*                   read happens-after the write, and the goroutine ends   *)
(*                                                                          *)
(* In Go's memory model a receive that observes the close happens after the *)
(* close, which is sequenced after the write: the only synchronisation      *)
(* edge used here.                                                          *)
(***************************************************************************)
EXTENDS Integers, TLC

CONSTANTS L,        \* number of certificate lines
          Drain
VARIABLES sent, written, closed, got, stopAt, callerPC, readBeforeWrite, sawClose
vars == <<sent, written, closed, got, stopAt, callerPC, readBeforeWrite, sawClose>>

Init == /\ sent = 0 /\ written = FALSE /\ closed = FALSE /\ got = 0
        /\ stopAt \in 1..(L + 1)            \* L + 1: the caller reads every line until the close
        /\ callerPC = "recv" /\ readBeforeWrite = FALSE /\ sawClose = FALSE

(* unbuffered channel: a send and the matching receive are one step *)
Rendezvous == /\ sent < L /\ ~written /\ callerPC \in {"recv", "drain"}
              /\ sent' = sent + 1 /\ got' = got + 1
              /\ callerPC' = IF callerPC = "recv" /\ got + 1 = stopAt THEN (IF Drain THEN "drain" ELSE "read") ELSE callerPC
              /\ UNCHANGED <<written, closed, stopAt, readBeforeWrite, sawClose>>
WriteStatus == /\ sent = L /\ ~written /\ written' = TRUE
               /\ UNCHANGED <<sent, closed, got, stopAt, callerPC, readBeforeWrite, sawClose>>
Close == /\ written /\ ~closed /\ closed' = TRUE
         /\ UNCHANGED <<sent, written, got, stopAt, callerPC, readBeforeWrite, sawClose>>
SeeClose == /\ closed /\ callerPC \in {"recv", "drain"}
            /\ callerPC' = "read" /\ sawClose' = TRUE
            /\ UNCHANGED <<sent, written, closed, got, stopAt, readBeforeWrite>>
ReadStatus == /\ callerPC = "read"
              /\ readBeforeWrite' = ~sawClose      \* no synchronisation edge orders the read after the write
              /\ callerPC' = "done"
              /\ UNCHANGED <<sent, written, closed, got, stopAt, sawClose>>
Next == Rendezvous \/ WriteStatus \/ Close \/ SeeClose \/ ReadStatus
Spec == Init /\ [][Next]_vars /\ WF_vars(Next)

(* the read of status is ordered after its write by a happens-before edge *)
NoRace == ~readBeforeWrite
(* the solver goroutine is never left blocked on a send nobody will receive *)
NoLeak == (callerPC = "done") => (sent = L \/ Drain)
GoroutineEnds == <>(closed)
=============================================================================
