SPECIFICATION Spec
CONSTANTS
  N = 3
  MaxK = 2
  W = 2
  R = 3
INVARIANTS NormalFormCorrect NormalFormShape EmitCall
CHECK_DEADLOCK FALSE
