SPECIFICATION Spec
CONSTANTS
  A = 1
  Shortcut = FALSE
  FixedF = "chain"
  N = 5
  K = 4
  MaxLen = 3
  MaxLearn = 2
  MaxRestart = 0
INVARIANTS TrailConsistent ReasonForces SatSound UnsatSound LearnEntailed ConflEntailed
CHECK_DEADLOCK FALSE
