SPECIFICATION Spec
CONSTANTS
  Kind = "opb"
  L = 0
  NV = 2
  MaxTerms = 2
  MaxCons = 2
  Coefs = {"+1", "-1", "2", "+0"}
  OVars = {"x1", "~x1", "x2", "~x2"}
  Rhs = {"-1", "0", "1", "+2", "3"}
INVARIANTS RoundTrip EmitOpb
CHECK_DEADLOCK FALSE
