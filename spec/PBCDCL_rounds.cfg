SPECIFICATION Spec
CONSTANTS
  MaxRounds = 2
  N = 2
  K = 2
  MaxLen = 2
  W = 2
  MaxLearn = 2
  MaxRestart = 0
INVARIANTS TypeOK TrailConsistent ReasonForces SatSound UnsatSound LearnEntailed ConflEntailed AnalysisProgress LastHasReason
CHECK_DEADLOCK FALSE
