SPECIFICATION Spec
CONSTANTS
  N = 2
  MaxC = 2
  Blocking = "one"
INVARIANTS EncodingCorrect
CHECK_DEADLOCK FALSE
