SPECIFICATION Spec
CONSTANTS
  K = 2
  Full = TRUE
  GuardAll = TRUE
INVARIANTS NNFCorrect TranslationCorrect EmitF
CHECK_DEADLOCK FALSE
