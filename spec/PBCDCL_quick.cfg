SPECIFICATION Spec
CONSTANTS
  MaxRounds = 0
  N = 2
  K = 2
  MaxLen = 2
  W = 2
  MaxLearn = 2
  MaxRestart = 1
INVARIANTS EmitInit TypeOK TrailConsistent ReasonForces SatSound UnsatSound LearnEntailed ConflEntailed AnalysisProgress LastHasReason
CHECK_DEADLOCK FALSE
