-------------------------------- MODULE PBProp --------------------------------
(***************************************************************************)
(* Propagation by cardinality and pseudo-boolean constraints                *)
(* (solver/watcher.go simplifyPseudoBool, slackSum, propagateAll,           *)
(* simplifyCardConstr; properties C02, C03, C14).                           *)
(*                                                                          *)
(* Constraint c = Sum w[i]*lit[i] >= d over distinct variables; partial     *)
(* assignment sigma (0 unassigned, 1 true, -1 false per variable).          *)
(*   slack(c, sigma) = Sum{w[i] : lit[i] not false} - d                     *)
(*   the code's rule:  slack < 0  -> conflict;                              *)
(*                     slack = 0  -> every unassigned literal is made true  *)
(*                                   (propagateAll);                        *)
(*                     else every unassigned literal with w > slack is      *)
(*                     made true, and the slack is computed again.          *)
(* Semantics: literal l is IMPLIED when every completion of sigma that      *)
(* satisfies c makes l true; c is REFUTED when no completion satisfies it.  *)
(*                                                                          *)
(* Theorems (TLC, every constraint with at most K literals, weights in      *)
(* MinW..W, every degree, every sigma): the rule reports a conflict exactly *)
(* when c is refuted, and otherwise propagates exactly the implied literals *)
(* (sound and complete).  With MinW = 0 (a zero weight, which the           *)
(* optimisation loop produced for zero-cost literals before commit adbc078) *)
(* the slack = 0 branch is UNSOUND: it forces literals that cost nothing.   *)
(***************************************************************************)
EXTENDS Integers, FiniteSets, Sequences, TLC

CONSTANTS K, W, MinW
Vars == 1..K
Cons == [w : [Vars -> MinW..W], d : 1..(K * W + 1)]       \* literal i is variable i (positive), w.l.o.g.
Sigma == [Vars -> {-1, 0, 1}]
VARIABLES c, sigma
vars == <<c, sigma>>
Init == c \in Cons /\ sigma \in Sigma
Next == UNCHANGED vars
Spec == Init /\ [][Next]_vars

RECURSIVE SumIf(_, _, _)
SumIf(cc, P(_), v) == IF v = 0 THEN 0 ELSE SumIf(cc, P, v - 1) + (IF P(v) THEN cc.w[v] ELSE 0)
Slack(cc, sg) == SumIf(cc, LAMBDA v : sg[v] # -1, K) - cc.d
Completions(sg) == {a \in [Vars -> BOOLEAN] : \A v \in Vars : (sg[v] = 1 => a[v]) /\ (sg[v] = -1 => ~a[v])}
SatA(a, cc) == SumIf(cc, LAMBDA v : a[v], K) >= cc.d
Good(cc, sg) == {a \in Completions(sg) : SatA(a, cc)}
Refuted(cc, sg) == Good(cc, sg) = {}
Implied(cc, sg) == {v \in Vars : sg[v] = 0 /\ \A a \in Good(cc, sg) : a[v]}

(* the code's propagation loop as a function: the set of variables it makes true, or "conflict" *)
AlreadySat(cc, sg) == SumIf(cc, LAMBDA v : sg[v] = 1, K) >= cc.d
RECURSIVE Loop(_, _, _)
Loop(cc, sg, acc) ==
  IF AlreadySat(cc, sg) THEN acc
  ELSE LET s == Slack(cc, sg) IN
       IF s < 0 THEN {0}                                  \* conflict marker
       ELSE IF s = 0 THEN acc \cup {v \in Vars : sg[v] = 0}
       ELSE LET new == {v \in Vars : sg[v] = 0 /\ cc.w[v] > s} IN
            IF new = {} THEN acc
            ELSE Loop(cc, [v \in Vars |-> IF v \in new THEN 1 ELSE sg[v]], acc \cup new)
Propagated == Loop(c, sigma, {})

ConflictExact == (Propagated = {0}) <=> (Refuted(c, sigma) /\ ~AlreadySat(c, sigma))
Sound == Propagated # {0} => Propagated \subseteq Implied(c, sigma)
(* completeness is only required when the constraint is not yet satisfied (the code returns early then) *)
Complete == (Propagated # {0} /\ ~AlreadySat(c, sigma)) => Implied(c, sigma) \subseteq Propagated
=============================================================================
