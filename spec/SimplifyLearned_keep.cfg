SPECIFICATION Spec
CONSTANTS
  N = 3
  W = 3
  KeepRest = TRUE
INVARIANTS NothingLost UnsatExact EmitSplit
CHECK_DEADLOCK FALSE
