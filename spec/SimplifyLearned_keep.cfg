SPECIFICATION Spec
CONSTANTS
  N = 3
  W = 3
  KeepRest = TRUE
INVARIANTS NothingLost UnsatExact
CHECK_DEADLOCK FALSE
