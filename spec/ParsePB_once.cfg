SPECIFICATION Spec
CONSTANTS
  NV = 3
  W = 2
  MaxK = 2
  L = 2
  Repass = "once"
INVARIANTS Fixpoint
CHECK_DEADLOCK FALSE
