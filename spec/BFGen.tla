-------------------------------- MODULE BFGen --------------------------------
(***************************************************************************)
(* Small-scope enumeration of boolean formulas (C11, C12) and the design    *)
(* of their translation to CNF (bf/bf.go).                                  *)
(*                                                                          *)
(* Scope: every formula tree of depth at most 2 over the names 1..K whose   *)
(* inner nodes are: not, and / or of arity 0..2, imp, eq, xor and           *)
(* exactly-one groups.  Each tree is an initial state; TLC checks the       *)
(* translation theorem on it and writes it out for replay (spec -> code).   *)
(*                                                                          *)
(* Translation as designed (and as the code does it since commits e8375ef   *)
(* and 40da176): negation normal form with constant folding (an empty       *)
(* conjunction is TRUE, an empty disjunction FALSE), then the Tseitin-style *)
(* step for a disjunction that contains conjunctions: one fresh guard       *)
(* variable d per conjunction, d in the disjunction and -d added to EVERY   *)
(* clause of every conjunct.  Theorem: the models of the clause set,        *)
(* projected on the formula's names, are exactly the truth table.           *)
(***************************************************************************)
EXTENDS BF, TLC, Json, CSV, IOUtils

CONSTANTS K, Full,    \* names; Full = TRUE: depth-2 trees over all depth-1 trees, FALSE: over a core subset
          GuardAll   \* TRUE: every clause of a guarded conjunct gets the guard (intended); FALSE: only the first (the code before 40da176)
VARIABLE f
vars == <<f>>

Leaves == {V(i) : i \in 1..K} \cup {Const("T"), Const("F")}
Pairs(S) == {<<x, y>> : x \in S, y \in S}
Level(S) ==
     {Un("not", x) : x \in S}
  \cup {Nary(op, <<>>) : op \in {"and", "or"}}
  \cup {Nary(op, <<x>>) : op \in {"and", "or"}, x \in S}
  \cup {Nary(op, p) : op \in {"and", "or"}, p \in Pairs(S)}
  \cup {Bin(op, p[1], p[2]) : op \in {"imp", "eq", "xor"}, p \in Pairs(S)}
Groups == {Nary("uniq", <<V(1)>>), Nary("uniq", <<V(1), V(2)>>)}
D1 == Leaves \cup Level(Leaves) \cup Groups
Core == {V(1), V(2), Const("T"), Un("not", V(1)), Nary("and", <<>>), Nary("or", <<>>),
         Nary("and", <<V(1), V(2)>>), Nary("or", <<V(1), V(2)>>), Bin("eq", V(1), V(2)),
         Bin("xor", V(1), V(2)), Bin("imp", V(1), V(2)), Nary("uniq", <<V(1), V(2)>>)}
D2 == D1 \cup Level(IF Full THEN D1 ELSE Core)

Init == f \in D2
Next == UNCHANGED f
Spec == Init /\ [][Next]_vars

(* ---- negation normal form with constant folding: nodes "lit" [i, neg], "and", "or", "T", "F" ---- *)
LitN(i, neg) == [op |-> "lit", i |-> i, neg |-> neg, kids |-> <<>>]
CT == [op |-> "T", i |-> 0, neg |-> FALSE, kids |-> <<>>]
CF == [op |-> "F", i |-> 0, neg |-> FALSE, kids |-> <<>>]
NN(op, ks) == [op |-> op, i |-> 0, neg |-> FALSE, kids |-> ks]
RECURSIVE Flat(_, _)
(* flatten children of the same operator, drop neutral constants, detect absorbing ones *)
Flat(op, ks) == IF ks = <<>> THEN <<>>
                ELSE LET h == Head(ks) IN
                     (IF h.op = op THEN h.kids
                      ELSE IF (op = "and" /\ h.op = "T") \/ (op = "or" /\ h.op = "F") THEN <<>>
                      ELSE <<h>>) \o Flat(op, Tail(ks))
Mk(op, ks) == LET fl == Flat(op, ks)
                  absorbing == IF op = "and" THEN "F" ELSE "T"
              IN IF \E j \in 1..Len(fl) : fl[j].op = absorbing THEN (IF op = "and" THEN CF ELSE CT)
                 ELSE IF Len(fl) = 0 THEN (IF op = "and" THEN CT ELSE CF)
                 ELSE IF Len(fl) = 1 THEN fl[1]
                 ELSE NN(op, fl)
(* at most one of ks: one clause (-a v -b) per pair *)
RECURSIVE PairClauses(_, _, _)
PairClauses(ks, a, b) == IF a >= Len(ks) THEN <<>>
                         ELSE IF b > Len(ks) THEN PairClauses(ks, a + 1, a + 2)
                         ELSE <<Nary("or", <<Un("not", ks[a]), Un("not", ks[b])>>)>> \o PairClauses(ks, a, b + 1)
RECURSIVE NNF(_, _)
NNF(g, neg) ==
  CASE g.op = "v"   -> LitN(g.i, neg)
    [] g.op = "T"   -> IF neg THEN CF ELSE CT
    [] g.op = "F"   -> IF neg THEN CT ELSE CF
    [] g.op = "not" -> NNF(g.kids[1], ~neg)
    [] g.op = "and" -> Mk(IF neg THEN "or" ELSE "and", [j \in 1..Len(g.kids) |-> NNF(g.kids[j], neg)])
    [] g.op = "or"  -> Mk(IF neg THEN "and" ELSE "or", [j \in 1..Len(g.kids) |-> NNF(g.kids[j], neg)])
    [] g.op = "imp" -> NNF(Nary("or", <<Un("not", g.kids[1]), g.kids[2]>>), neg)
    [] g.op = "eq"  -> NNF(Nary("and", <<Nary("or", <<Un("not", g.kids[1]), g.kids[2]>>),
                                         Nary("or", <<g.kids[1], Un("not", g.kids[2])>>)>>), neg)
    [] g.op = "xor" -> NNF(Nary("and", <<Nary("or", <<Un("not", g.kids[1]), Un("not", g.kids[2])>>),
                                         Nary("or", <<g.kids[1], g.kids[2]>>)>>), neg)
    [] g.op = "uniq" -> NNF(Nary("and", <<Nary("or", g.kids)>> \o PairClauses(g.kids, 1, 2)), neg)

(* the NNF has the truth table of the formula *)
RECURSIVE EvalN(_, _)
EvalN(g, a) == CASE g.op = "lit" -> (a[g.i] # g.neg)
                 [] g.op = "T" -> TRUE
                 [] g.op = "F" -> FALSE
                 [] g.op = "and" -> \A j \in 1..Len(g.kids) : EvalN(g.kids[j], a)
                 [] g.op = "or" -> \E j \in 1..Len(g.kids) : EvalN(g.kids[j], a)
NNFCorrect == \A a \in Assignments(K) : EvalN(NNF(f, FALSE), a) = Eval(f, a)

(* ---- definitional CNF of an NNF: [cls, next] with cls a sequence of clauses, next the next free variable ---- *)
RECURSIVE Cnf(_, _), CnfAnd(_, _, _), CnfOr(_, _, _, _, _), Guarded(_, _, _, _)
AddLit(cls, l) == [j \in 1..Len(cls) |-> IF GuardAll \/ j = 1 THEN Append(cls[j], l) ELSE cls[j]]
Cnf(g, nx) ==
  CASE g.op = "lit" -> [cls |-> << <<IF g.neg THEN -g.i ELSE g.i>> >>, next |-> nx]
    [] g.op = "T"   -> [cls |-> <<>>, next |-> nx]
    [] g.op = "F"   -> [cls |-> << <<>> >>, next |-> nx]
    [] g.op = "and" -> CnfAnd(g.kids, 1, [cls |-> <<>>, next |-> nx])
    [] g.op = "or"  -> CnfOr(g.kids, 1, <<>>, <<>>, nx)
CnfAnd(ks, j, acc) == IF j > Len(ks) THEN acc
                      ELSE LET r == Cnf(ks[j], acc.next) IN CnfAnd(ks, j + 1, [cls |-> acc.cls \o r.cls, next |-> r.next])
(* conjuncts of a nested conjunction, every clause guarded by -d *)
Guarded(ks, j, d, acc) == IF j > Len(ks) THEN acc
                          ELSE LET r == Cnf(ks[j], acc.next) IN
                               Guarded(ks, j + 1, d, [cls |-> acc.cls \o AddLit(r.cls, -d), next |-> r.next])
CnfOr(ks, j, lits, cls, nx) ==
  IF j > Len(ks) THEN [cls |-> Append(cls, lits), next |-> nx]
  ELSE IF ks[j].op = "lit" THEN CnfOr(ks, j + 1, Append(lits, IF ks[j].neg THEN -ks[j].i ELSE ks[j].i), cls, nx)
  ELSE LET d == nx
           r == Guarded(ks[j].kids, 1, d, [cls |-> <<>>, next |-> nx + 1])
       IN CnfOr(ks, j + 1, Append(lits, d), cls \o r.cls, r.next)

Translation == Cnf(NNF(f, FALSE), K + 1)
TranslationCorrect ==
  LET t == Translation
      nv == t.next - 1
  IN Project(ClauseModels(nv, t.cls), K) = TruthTable(f, K)

EmitFile == IF "VERIF_EMIT" \in DOMAIN IOEnv THEN IOEnv.VERIF_EMIT ELSE "bf_emit.ndjson"
EmitF == CSVWrite("%1$s", <<ToJson([k |-> K, f |-> f])>>, EmitFile)
=============================================================================
