SPECIFICATION Spec
CONSTANTS
  N = 2
  MaxLen = 4
  Minimise = TRUE
INVARIANTS ResultIsMUS ErrorIffSat Lemma EmitF
CHECK_DEADLOCK FALSE
