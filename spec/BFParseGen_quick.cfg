SPECIFICATION Spec
CONSTANT L = 4
INVARIANTS Total NotClosedUnderNothing WrapOK NegOK EmitTs
CHECK_DEADLOCK FALSE
