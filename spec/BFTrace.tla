------------------------------ MODULE BFTrace ------------------------------
(***************************************************************************)
(* Code -> spec for package bf: Solve (C11), Dimacs (C12), Parse (C17).      *)
(* Case: [id, k, f, ev]: k names, f the formula (AST of module BF).          *)
(***************************************************************************)
EXTENDS BFParse, TLC, Json, IOUtils

Cases == ndJsonDeserialize(IOEnv.VERIF_TRACE)
OutFile == IOEnv.VERIF_OUT

VARIABLES ci, ei, tt, bad, nev
vars == <<ci, ei, tt, bad, nev>>
Case == Cases[ci]
Ev == Case.ev[ei]
K == Case.k

(* (until commit "first-class exactly-one" exactly-one groups of 5 or more variables at a        *)
(* non-positive polarity were an open known finding with the trigger BF!UniqNonPos(f, 1, 5); the  *)
(* deviation has been removed with the repair)                                                     *)
Tag(w) == w

Agree(dom, val) == {a \in Assignments(K) : \A j \in 1..Len(dom) : dom[j] # 0 => a[dom[j]] = val[j]}

(* a call may be about the negation of the formula of the case (the same formula value is used by   *)
(* several calls of a case: what a call leaves behind in the value shows in the next one)            *)
Neg(e) == "neg" \in DOMAIN e /\ e.neg
TTOf(e) == IF Neg(e) THEN Assignments(K) \ tt ELSE tt
SolveWhy(e) ==
  LET T == TTOf(e) IN
  IF e.isNil # (T = {}) THEN (IF e.isNil THEN "bf-nil-on-satisfiable" ELSE "bf-model-on-unsatisfiable")
  ELSE IF e.isNil THEN ""
  ELSE IF ~(Agree(e.dom, e.val) \subseteq T) THEN "bf-model-falsifies-formula"
  ELSE ""

(* ---- C12: the exported problem ------------------------------------------ *)
ExportModels(e) == {a \in Assignments(e.hdrVars) : \A j \in 1..Len(e.clauses) : SatCl(a, e.clauses[j])}
Mapped(e) == {e.map[j][1] : j \in 1..Len(e.map)}       \* name indices that have a DIMACS index
DimOf(e, nmIdx) == LET j == CHOOSE j \in 1..Len(e.map) : e.map[j][1] = nmIdx IN e.map[j][2]
DimacsWhy(e) ==
  IF e.err THEN "dimacs-error"
  ELSE IF e.hdrClauses # Len(e.clauses) THEN "dimacs-header-clauses"
  ELSE IF \E j \in 1..Len(e.clauses) : \E l \in 1..Len(e.clauses[j]) :
            e.clauses[j][l] = 0 \/ Abs(e.clauses[j][l]) > e.hdrVars THEN "dimacs-literal-out-of-range"
  ELSE IF \E j \in 1..Len(e.map) : e.map[j][1] = 0 \/ e.map[j][2] < 1 \/ e.map[j][2] > e.hdrVars THEN "dimacs-name-table"
  ELSE IF Cardinality({e.map[j][2] : j \in 1..Len(e.map)}) # Len(e.map)
          \/ Cardinality(Mapped(e)) # Len(e.map) THEN "dimacs-name-table-not-injective"
  ELSE IF e.hdrVars > 13
  THEN (* too large for exhaustive comparison: every formula model, asserted on the mapped names,   *)
       (* must survive unit propagation on the export (definitional encodings complete their       *)
       (* auxiliary variables by propagation); a conflict means the model is lost                   *)
       LET EC == {Range(e.clauses[j]) : j \in 1..Len(e.clauses)}
           Asserted(a) == {IF a[v] THEN DimOf(e, v) ELSE -DimOf(e, v) : v \in Mapped(e)}
       IN IF \E a \in TTOf(e) : UP(EC, Asserted(a)) = CONFLICT THEN "dimacs-formula-model-lost"
          ELSE ""
  ELSE LET EM == ExportModels(e)
           (* formula assignments that agree with export model x on the mapped names *)
           Ext(x) == {a \in Assignments(K) : \A v \in Mapped(e) : a[v] = x[DimOf(e, v)]}
       IN IF \E x \in EM : ~(Ext(x) \subseteq TTOf(e)) THEN "dimacs-export-model-falsifies-formula"
          ELSE IF \E a \in TTOf(e) : ~\E x \in EM : a \in Ext(x) THEN "dimacs-formula-model-lost"
          ELSE ""

(* ---- C17: parsing -------------------------------------------------------- *)
(* A deep tree arrives in post-order, as a flat list of [op, i, n] (operator, variable index, number  *)
(* of operands): evaluated with a stack of truth values.                                             *)
RECURSIVE AllTrue(_, _, _), AnyTrue(_, _, _), FlatRun(_, _, _, _)
AllTrue(st, lo, hi) == IF lo > hi THEN TRUE ELSE st[lo] /\ AllTrue(st, lo + 1, hi)
AnyTrue(st, lo, hi) == IF lo > hi THEN FALSE ELSE st[lo] \/ AnyTrue(st, lo + 1, hi)
FlatRun(fl, i, st, a) ==
  IF i > Len(fl) THEN st
  ELSE LET nd == fl[i]
           m == Len(st) - nd.n
           v == CASE nd.op = "v"   -> a[nd.i]
                  [] nd.op = "T"   -> TRUE
                  [] nd.op = "F"   -> FALSE
                  [] nd.op = "not" -> ~st[Len(st)]
                  [] nd.op = "and" -> AllTrue(st, m + 1, Len(st))
                  [] nd.op = "or"  -> AnyTrue(st, m + 1, Len(st))
       IN FlatRun(fl, i + 1, Append(SubSeq(st, 1, m), v), a)
FlatTT(fl, k) == {a \in Assignments(k) : FlatRun(fl, 1, <<>>, a)[1]}
ParsedTT(e) == IF "useFlat" \in DOMAIN e /\ e.useFlat THEN FlatTT(e.flat, K) ELSE TruthTable(e.ast, K)
ParseWhy(e) ==
  LET ref == Parse(e.tokens, Case.names) IN
  IF e.panic THEN "parse-panic"
  ELSE IF ref.ok
  THEN IF e.err THEN "parse-rejected-well-formed"
       ELSE IF e.foreign THEN "parse-invented-variable"
       ELSE IF ParsedTT(e) # TruthTable(ref.f, K) THEN "parse-wrong-meaning"
       ELSE ""
  ELSE IF TrailingSemi(e.tokens, Case.names)
  THEN IF e.err THEN ""
       ELSE IF e.foreign \/ ParsedTT(e) # TruthTable(Parse(SubSeq(e.tokens, 1, Len(e.tokens) - 1), Case.names).f, K)
            THEN "parse-wrong-meaning" ELSE ""
  ELSE IF ~e.err THEN "parse-accepted-ill-formed"
  ELSE IF ~e.nilFormula THEN "parse-error-with-formula"
  ELSE ""

Why == CASE Ev.op = "solve"   -> Tag(SolveWhy(Ev))
         [] Ev.op = "dimacs"  -> Tag(DimacsWhy(Ev))
         [] Ev.op = "parse"   -> ParseWhy(Ev)
         [] Ev.op = "skip"    -> ""
         [] Ev.op = "crash"   -> "crash"
         [] Ev.op = "timeout" -> "timeout"
         [] OTHER             -> "unknown-event"

TT(c) == IF c.hasF THEN TruthTable(c.f, c.k) ELSE {}
Init == /\ ci = 1 /\ ei = 1 /\ bad = <<>> /\ nev = 0
        /\ tt = IF Len(Cases) >= 1 THEN TT(Cases[1]) ELSE {}
Step == /\ ci <= Len(Cases) /\ ei <= Len(Case.ev)
        /\ LET why == Why IN
           bad' = IF why = "" THEN bad ELSE Append(bad, <<Case.id, ei, why>>)
        /\ ei' = ei + 1 /\ nev' = nev + 1 /\ UNCHANGED <<ci, tt>>
NextCase == /\ ci <= Len(Cases) /\ ei > Len(Case.ev)
            /\ ci' = ci + 1 /\ ei' = 1 /\ UNCHANGED <<bad, nev>>
            /\ tt' = IF ci + 1 <= Len(Cases) THEN TT(Cases[ci + 1]) ELSE {}
Next == Step \/ NextCase
Spec == Init /\ [][Next]_vars
Done == ci > Len(Cases)
Emit == Done => JsonSerialize(OutFile, [cases |-> Len(Cases), events |-> nev, bad |-> bad])
=============================================================================
