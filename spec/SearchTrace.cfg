SPECIFICATION TSpec
CONSTANTS
  MaxRounds = 0
  N = @MAXN@
  K = 0
  MaxLen = 0
  W = 1
  MaxLearn = 100000000
  MaxRestart = 100000000
INVARIANTS Emit TrailConsistent
CHECK_DEADLOCK FALSE
