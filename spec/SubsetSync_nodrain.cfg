SPECIFICATION Spec
CONSTANTS
  L = 3
  Drain = FALSE
INVARIANT NoRace
CHECK_DEADLOCK FALSE
