SPECIFICATION Spec
CONSTANTS
  N = 2
  MaxLen = 3
  Minimise = FALSE
INVARIANTS ResultIsMUS
CHECK_DEADLOCK FALSE
