-------------------------------- MODULE CPOps --------------------------------
(***************************************************************************)
(* The arithmetic of the cutting-planes conflict analysis as FUNCTIONS on   *)
(* constraints of any number of variables (solver/learn_pb.go roundToOne,   *)
(* divideBy, clash; solver/clause.go SimplifyPB), in the representation of  *)
(* the code: a sequence of signed weights, one per variable (> 0 the        *)
(* variable, < 0 its negation, 0 absent), and a degree.  CuttingPlanes.tla  *)
(* proves that these operations only derive consequences (its own           *)
(* definitions are shown equal to these on every enumerated input, OpsAgree)*)
(* and CPTrace.tla compares, input by input, the results of the real        *)
(* functions (called through add-only hooks) with GRound, GClash, GSplit.   *)
(***************************************************************************)
EXTENDS Integers, Sequences

GAbs(x) == IF x < 0 THEN -x ELSE x
GMin(a, b) == IF a <= b THEN a ELSE b
(* the literal of variable v in w is falsified under sg (0 unassigned, 1 true, -1 false) *)
GFalsified(w, v, sg) == (w[v] > 0 /\ sg[v] = -1) \/ (w[v] < 0 /\ sg[v] = 1)
GCeil(a, b) == IF a % b = 0 THEN a \div b ELSE (a \div b) + 1                 \* b > 0 (a \div b is the floor)
GDivAway(wj, c) == IF wj % c = 0 THEN wj \div c
                   ELSE IF wj > 0 THEN (wj \div c) + 1 ELSE -((-wj) \div c) - 1
RECURSIVE GSumIf(_, _, _)
GSumIf(w, P(_), v) == IF v = 0 THEN 0 ELSE GSumIf(w, P, v - 1) + (IF P(v) THEN GAbs(w[v]) ELSE 0)

(* roundToOne(locked = y): nothing if |w[y]| = 1; otherwise the literals that are not falsified and   *)
(* whose weight is not a multiple of |w[y]| are removed (the degree drops by their weights), then     *)
(* every weight is divided by |w[y]| rounding away from zero and the degree rounding up.              *)
(* defined = the degree is still positive after the removal: always the case for the constraints the  *)
(* analysis rounds (a conflicting constraint, the reason of a propagated literal); the code divides   *)
(* a non-positive degree with Go's truncated division plus one, which is not a ceiling - outside      *)
(* "defined" nothing is claimed about the result.                                                     *)
GRound(pb, y, sg) ==
  LET c == GAbs(pb.w[y])
      n == Len(pb.w)
  IN IF c <= 1 THEN [w |-> pb.w, d |-> pb.d, defined |-> TRUE]
     ELSE LET drop(v) == pb.w[v] # 0 /\ pb.w[v] % c # 0 /\ ~GFalsified(pb.w, v, sg)
              wk == [v \in 1..n |-> IF drop(v) THEN 0 ELSE pb.w[v]]
              dk == pb.d - GSumIf(pb.w, drop, n)
          IN [w |-> [v \in 1..n |-> IF wk[v] = 0 THEN 0 ELSE GDivAway(wk[v], c)],
              d |-> IF dk > 0 THEN GCeil(dk, c) ELSE 0, defined |-> dk > 0]

(* clash: termwise sum; opposite literals cancel, the degree drops by the smaller weight *)
RECURSIVE GCancel(_, _, _)
GCancel(p, q, v) == IF v = 0 THEN 0
                    ELSE GCancel(p, q, v - 1) + (IF p[v] * q[v] < 0 THEN GMin(GAbs(p[v]), GAbs(q[v])) ELSE 0)
GClash(p, q) == [w |-> [v \in 1..Len(p.w) |-> p.w[v] + q.w[v]], d |-> p.d + q.d - GCancel(p.w, q.w, Len(p.w))]
=============================================================================
