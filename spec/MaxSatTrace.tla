---------------------------- MODULE MaxSatTrace ----------------------------
(***************************************************************************)
(* Code -> spec for C04 (and the MaxSAT part of C20): replies of            *)
(* maxsat.New(...).Solve() and of maxsat.ParseWCNF(...).Optimal(...)        *)
(* validated against the meaning of a weighted partial MaxSAT instance      *)
(* (MaxSat.tla).                                                            *)
(*                                                                          *)
(* Case: [id, route, n, cons, ev]; cons[i] = constructor record             *)
(* [k, lits, w, rhs, weight] with weight = 0 for a hard constraint.         *)
(* Events: "solve" (constraint API), "optimal" (WCNF route), crash/timeout. *)
(***************************************************************************)
EXTENDS Formats, Json, IOUtils

Cases == ndJsonDeserialize(IOEnv.VERIF_TRACE)
OutFile == IOEnv.VERIF_OUT

VARIABLES ci, ei, hardM, bad, nev
vars == <<ci, ei, hardM, bad, nev>>

Case == Cases[ci]
Ev == Case.ev[ei]
N == Case.n

(* the constraints of a case: given as constructor records, or - for a text enumerated by         *)
(* FormatsGen.tla - what the reference reader of Formats.tla reads from its tokens               *)
IsText(c) == Len(c.ts) > 0
ConsOf(c) == IF IsText(c) THEN WcnfRead(c.n, c.m, c.withTop, c.ts).cons ELSE c.cons
HardIdx(c) == {i \in 1..Len(ConsOf(c)) : ConsOf(c)[i].weight = 0}
SoftIdx(c) == {i \in 1..Len(ConsOf(c)) : ConsOf(c)[i].weight # 0}
HardModels(c) == {a \in Assignments(c.n) : \A i \in HardIdx(c) : SatC(a, AsWritten(ConsOf(c)[i]))}
(* weight of the soft constraints violated by a *)
RECURSIVE ViolFrom(_, _, _)
ViolFrom(cs, a, i) == IF i > Len(cs) THEN 0
                      ELSE (IF cs[i].weight # 0 /\ ~SatC(a, AsWritten(cs[i])) THEN cs[i].weight ELSE 0)
                           + ViolFrom(cs, a, i + 1)
Viol(a) == ViolFrom(ConsOf(Case), a, 1)
Optimum == CHOOSE k \in {Viol(m) : m \in hardM} : \A m \in hardM : Viol(m) >= k

Used == UNION {{VarOf(ConsOf(Case)[i].lits[j]) : j \in 1..Len(ConsOf(Case)[i].lits)} : i \in 1..Len(ConsOf(Case))}
TextWhy == IF ~IsText(Case) THEN ""
           ELSE IF ~WcnfRead(Case.n, Case.m, Case.withTop, Case.ts).wf THEN "harness:text-not-well-formed"
           ELSE IF Case.text # WcnfText(Case.n, Case.m, Case.withTop, Case.ts) THEN "harness:text-not-the-rendering-of-its-tokens"
           ELSE ""

(* assignments over 1..N that agree with the reported bindings dom[i] |-> val[i] *)
Agree(dom, val) == {a \in Assignments(N) : \A i \in 1..Len(dom) : a[dom[i]] = val[i]}

SolveWhy(e) ==
  IF e.isNil # (hardM = {}) THEN "maxsat-verdict"
  ELSE IF e.isNil THEN (IF e.cost # -1 THEN "maxsat-unsat-cost" ELSE "")
  ELSE IF Len(e.dom) # Cardinality(Range(e.dom)) \/ Range(e.dom) # Used THEN "maxsat-domain"
  ELSE IF \E a \in Agree(e.dom, e.val) : a \notin hardM THEN "maxsat-hard-violated"
  ELSE IF \E a \in Agree(e.dom, e.val) : Viol(a) # e.cost THEN "maxsat-cost-of-model"
  ELSE IF e.cost # Optimum THEN "maxsat-not-minimal"
  ELSE ""

ToFn(m) == [v \in 1..Len(m) |-> m[v]]
ResWhy(r, final) ==
  IF r.status \notin {"SAT", "UNSAT"} THEN "wcnf-indet"
  ELSE IF (r.status = "UNSAT") # (hardM = {}) THEN "wcnf-verdict"
  ELSE IF r.status = "UNSAT" THEN ""
  ELSE IF Len(r.model) # N THEN "wcnf-model-length"
  ELSE IF ToFn(r.model) \notin hardM THEN "wcnf-hard-violated"
  ELSE IF Viol(ToFn(r.model)) # r.cost THEN "wcnf-cost-of-model"
  ELSE IF final /\ r.cost # Optimum THEN "wcnf-not-minimal"
  ELSE ""

StreamWhy(e) ==
  LET s == e.stream IN
  IF ~e.chan THEN ""
  ELSE IF ~e.closed THEN "stream-not-closed"
  ELSE IF Len(s) = 0 THEN "stream-empty"
  ELSE IF \E i \in 1..Len(s) : ResWhy(s[i], FALSE) # "" THEN "stream-invalid-result"
  ELSE IF \E i \in 1..Len(s) : s[i].late # s[i].model THEN "stream-result-modified-after-delivery"
  ELSE IF \E i \in 1..(Len(s) - 1) : s[i].status = "SAT" /\ s[i + 1].status = "SAT"
                                     /\ s[i + 1].cost >= s[i].cost THEN "stream-not-decreasing"
  ELSE IF s[Len(s)].status # e.status \/ (e.status = "SAT" /\ (s[Len(s)].cost # e.cost
                                          \/ s[Len(s)].model # e.model)) THEN "stream-last-differs"
  ELSE ""

Why == CASE Ev.op = "solve"   -> SolveWhy(Ev)
         [] Ev.op = "optimal" -> IF TextWhy # "" THEN TextWhy ELSE IF ResWhy(Ev, TRUE) # "" THEN ResWhy(Ev, TRUE) ELSE StreamWhy(Ev)
         [] Ev.op = "skip"    -> ""
         [] Ev.op = "crash"   -> "crash"
         [] Ev.op = "timeout" -> "timeout"
         [] OTHER             -> "unknown-event"

Init == /\ ci = 1 /\ ei = 1 /\ bad = <<>> /\ nev = 0
        /\ hardM = IF Len(Cases) >= 1 THEN HardModels(Cases[1]) ELSE {}

Step == /\ ci <= Len(Cases) /\ ei <= Len(Case.ev)
        /\ LET why == Why IN
           bad' = IF why = "" THEN bad ELSE Append(bad, <<Case.id, ei, why>>)
        /\ ei' = ei + 1 /\ nev' = nev + 1 /\ UNCHANGED <<ci, hardM>>

NextCase == /\ ci <= Len(Cases) /\ ei > Len(Case.ev)
            /\ ci' = ci + 1 /\ ei' = 1 /\ UNCHANGED <<bad, nev>>
            /\ hardM' = IF ci + 1 <= Len(Cases) THEN HardModels(Cases[ci + 1]) ELSE {}

Next == Step \/ NextCase
Spec == Init /\ [][Next]_vars
Done == ci > Len(Cases)
Emit == Done => JsonSerialize(OutFile, [cases |-> Len(Cases), events |-> nev, bad |-> bad])
=============================================================================
