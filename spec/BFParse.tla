------------------------------- MODULE BFParse -------------------------------
(***************************************************************************)
(* The documented text syntax of formulas (bf/doc.go, bf/parser.go) as a    *)
(* recursive-descent REFERENCE over token sequences:                        *)
(*                                                                          *)
(*   formula ::= clause { ';' clause }*        lowest priority, conjunction  *)
(*   clause  ::= implies { '=' implies }*                                   *)
(*   implies ::= or { '->' or }*                                            *)
(*   or      ::= and { '|' and }*                                           *)
(*   and     ::= not { '&' not }*                                           *)
(*   not     ::= '^' not | atom                                             *)
(*   atom    ::= ident | '(' formula ')' | '{' ident { ',' ident }* '}'     *)
(*                                                                          *)
(* Repetitions of the same operator nest to the right.  Tokens are strings; *)
(* identifiers are the members of Names.  Parse returns [ok, f]: an AST of  *)
(* module BF or failure.                                                    *)
(***************************************************************************)
EXTENDS BF

Ops == {";", "=", "->", "|", "&", "^", "(", ")", "{", "}", ","}
IsIdent(t) == t \notin Ops /\ t # "EOF"

Fail == [ok |-> FALSE, f |-> Const("F"), i |-> 0]
Good(f, i) == [ok |-> TRUE, f |-> f, i |-> i]
Tok(ts, i) == IF i <= Len(ts) THEN ts[i] ELSE "EOF"

(* index of an identifier in the list of names *)
IdxOf(names, nm) == IF \E k \in 1..Len(names) : names[k] = nm
                    THEN CHOOSE k \in 1..Len(names) : names[k] = nm ELSE 0

RECURSIVE PFormula(_, _, _), PEquiv(_, _, _), PImp(_, _, _), POr(_, _, _), PAnd(_, _, _),
          PNot(_, _, _), PAtom(_, _, _), PGroup(_, _, _, _)

PFormula(ts, i, nm) == LET l == PEquiv(ts, i, nm) IN
  IF ~l.ok THEN Fail
  ELSE IF Tok(ts, l.i) = ";"
       THEN LET r == PFormula(ts, l.i + 1, nm) IN IF r.ok THEN Good(Bin("and", l.f, r.f), r.i) ELSE Fail
       ELSE l
PEquiv(ts, i, nm) == LET l == PImp(ts, i, nm) IN
  IF ~l.ok THEN Fail
  ELSE IF Tok(ts, l.i) = "="
       THEN LET r == PEquiv(ts, l.i + 1, nm) IN IF r.ok THEN Good(Bin("eq", l.f, r.f), r.i) ELSE Fail
       ELSE l
PImp(ts, i, nm) == LET l == POr(ts, i, nm) IN
  IF ~l.ok THEN Fail
  ELSE IF Tok(ts, l.i) = "->"
       THEN LET r == PImp(ts, l.i + 1, nm) IN IF r.ok THEN Good(Bin("imp", l.f, r.f), r.i) ELSE Fail
       ELSE l
POr(ts, i, nm) == LET l == PAnd(ts, i, nm) IN
  IF ~l.ok THEN Fail
  ELSE IF Tok(ts, l.i) = "|"
       THEN LET r == POr(ts, l.i + 1, nm) IN IF r.ok THEN Good(Bin("or", l.f, r.f), r.i) ELSE Fail
       ELSE l
PAnd(ts, i, nm) == LET l == PNot(ts, i, nm) IN
  IF ~l.ok THEN Fail
  ELSE IF Tok(ts, l.i) = "&"
       THEN LET r == PAnd(ts, l.i + 1, nm) IN IF r.ok THEN Good(Bin("and", l.f, r.f), r.i) ELSE Fail
       ELSE l
PNot(ts, i, nm) ==
  IF Tok(ts, i) = "^"
  THEN LET r == PNot(ts, i + 1, nm) IN IF r.ok THEN Good(Un("not", r.f), r.i) ELSE Fail
  ELSE PAtom(ts, i, nm)
(* '{' already consumed; acc = the variables read so far; expects ident then ',' or '}' *)
PGroup(ts, i, nm, acc) ==
  IF ~IsIdent(Tok(ts, i)) THEN Fail
  ELSE LET acc2 == Append(acc, V(IdxOf(nm, Tok(ts, i)))) IN
       IF Tok(ts, i + 1) = "}" THEN Good(Nary("uniq", acc2), i + 2)
       ELSE IF Tok(ts, i + 1) = "," THEN PGroup(ts, i + 2, nm, acc2)
       ELSE Fail
PAtom(ts, i, nm) ==
  IF IsIdent(Tok(ts, i)) THEN Good(V(IdxOf(nm, Tok(ts, i))), i + 1)
  ELSE IF Tok(ts, i) = "("
       THEN LET r == PFormula(ts, i + 1, nm) IN
            IF r.ok /\ Tok(ts, r.i) = ")" THEN Good(r.f, r.i + 1) ELSE Fail
  ELSE IF Tok(ts, i) = "{" THEN PGroup(ts, i + 1, nm, <<>>)
  ELSE Fail

Parse(ts, nm) == LET r == PFormula(ts, 1, nm) IN IF r.ok /\ r.i = Len(ts) + 1 THEN r ELSE Fail

(* A single ';' closing the whole text: the documentation does not say whether it is a       *)
(* terminator; the reference leaves that one case open (either outcome is accepted, but if    *)
(* the text is accepted it must mean the text without that ';').                              *)
TrailingSemi(ts, nm) == Len(ts) >= 2 /\ ts[Len(ts)] = ";" /\ Parse(SubSeq(ts, 1, Len(ts) - 1), nm).ok
=============================================================================
