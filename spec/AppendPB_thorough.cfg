SPECIFICATION Spec
CONSTANTS
  NV = 3
  W = 3
  MaxK = 3
  UnitRule = "exact"
INVARIANTS OutcomeCorrect ResidualClean WatchDetects EmitInit
CHECK_DEADLOCK FALSE
