------------------------------- MODULE Formats -------------------------------
(***************************************************************************)
(* The three text formats the project reads (properties C13, C18, C19) as   *)
(* REFERENCE READERS over token sequences, and the rule that turns a token  *)
(* sequence into the bytes of a file.                                       *)
(*                                                                          *)
(* A text body is a sequence of tokens (strings).  "NL" ends a line; two    *)
(* tokens on the same line are separated by one blank when rendered.  A     *)
(* comment token stands for a whole comment line and is only well placed    *)
(* alone on its line.  The header line (DIMACS, WCNF) is rendered from the  *)
(* declared counts.  A text that does not end with "NL" is a file whose     *)
(* last line has no newline.                                                *)
(*                                                                          *)
(*   DIMACS CNF   p cnf N M  then M clauses, each a run of non-zero         *)
(*                literals closed by 0; a clause may span lines and a line  *)
(*                may hold several clauses; comment lines (c ...) between   *)
(*                clauses                                                   *)
(*   WCNF         p wcnf N M [TOP]  then M lines  weight lits 0 ; weight    *)
(*                TOP (token "T") marks a hard clause; comment lines        *)
(*   OPB          comment lines (asterisk ...), at most one objective line  *)
(*                min: terms ;  before the constraints, then lines          *)
(*                terms rel int ;  with term = coefficient variable,        *)
(*                rel one of >= and =, variable xK or ~xK                   *)
(*                                                                          *)
(* Each reader returns [wf, ...]: wf = the text is well formed by the       *)
(* rules above (anything else is left unspecified: the properties only      *)
(* speak about well-formed texts), and the abstract file it denotes, in     *)
(* the vocabulary of Logic (clauses; constructor records; cost function).   *)
(* FormatsGen.tla enumerates token strings, classifies them with these      *)
(* readers and writes the well-formed ones out for replay through           *)
(* solver.ParseCNF, explain.ParseCNF, maxsat.ParseWCNF and solver.ParseOPB. *)
(***************************************************************************)
EXTENDS Logic, TLC

(* ---- tokens ------------------------------------------------------------ *)
NumTok == ("0" :> 0) @@ ("1" :> 1) @@ ("-1" :> -1) @@ ("2" :> 2) @@ ("-2" :> -2) @@ ("3" :> 3) @@ ("-3" :> -3)
          @@ ("+0" :> 0) @@ ("+1" :> 1) @@ ("+2" :> 2) @@ ("+3" :> 3) @@ ("4" :> 4) @@ ("+4" :> 4) @@ ("-4" :> -4)
IsNum(t) == t \in DOMAIN NumTok
VarTok == ("x1" :> 1) @@ ("~x1" :> -1) @@ ("x2" :> 2) @@ ("~x2" :> -2) @@ ("x3" :> 3) @@ ("~x3" :> -3)
IsVar(t) == t \in DOMAIN VarTok
TopWeight == 9                      \* what the token "T" is rendered as in a WCNF file

(* ---- rendering ----------------------------------------------------------- *)
TokText(t, kind) ==
  CASE t = "NL" -> "\n"
    [] t = "C"  -> (IF kind = "opb" THEN "* note +1 x1 >= 1 ;" ELSE "c note 1 -2 0")
    [] t = "T"  -> ToString(TopWeight)
    [] OTHER    -> t
RECURSIVE RenderFrom(_, _, _)
RenderFrom(ts, i, kind) ==
  IF i > Len(ts) THEN ""
  ELSE TokText(ts[i], kind)
       \o (IF i < Len(ts) /\ ts[i] # "NL" /\ ts[i + 1] # "NL" THEN " " ELSE "")
       \o RenderFrom(ts, i + 1, kind)
Body(ts, kind) == RenderFrom(ts, 1, kind)
CnfText(n, m, ts)  == "p cnf " \o ToString(n) \o " " \o ToString(m) \o "\n" \o Body(ts, "cnf")
WcnfText(n, m, withTop, ts) ==
  "p wcnf " \o ToString(n) \o " " \o ToString(m) \o (IF withTop THEN " " \o ToString(TopWeight) ELSE "") \o "\n" \o Body(ts, "wcnf")
OpbText(n, m, ts) == "* #variable= " \o ToString(n) \o " #constraint= " \o ToString(m) \o "\n" \o Body(ts, "opb")

(* ---- lexed tokens ----------------------------------------------------------- *)
(* The readers work on LEXED tokens, records [k, v, s]:                                            *)
(*   k = "num"  an integer, v its value          k = "var"  xK / ~xK, v = K / -K                   *)
(*   k = "nl"   end of line                      k = "com"  a whole comment line                   *)
(*   k = "sym"  anything else, s its text (">=", "=", ";", "min:", or a token no format knows)     *)
(* FormatsGen's string tokens are lexed by Lex below (tables NumTok, VarTok).  Texts PRINTED by the *)
(* project (C18) are lexed by the harness (whitespace splitting and the shape of single tokens     *)
(* only) and read by the same readers: a printed text is well formed iff the reference reads it.   *)
Tk(k, v, s) == [k |-> k, v |-> v, s |-> s]
Lex(t) == CASE t = "NL" -> Tk("nl", 0, "")
            [] t = "C"  -> Tk("com", 0, "")
            [] t = "T"  -> Tk("num", TopWeight, "")
            [] IsNum(t) -> Tk("num", NumTok[t], "")
            [] IsVar(t) -> Tk("var", VarTok[t], "")
            [] OTHER    -> Tk("sym", 0, t)
LexSeq(ts) == [i \in 1..Len(ts) |-> Lex(ts[i])]
NumL(x) == x.k = "num"
VarL(x) == x.k = "var"
SymL(x, str) == x.k = "sym" /\ x.s = str

(* ---- lines ---------------------------------------------------------------- *)
(* the lines of a text: maximal runs of tokens other than line ends (a final line end does not open a line) *)
RECURSIVE LinesFrom(_, _, _, _)
LinesFrom(lx, i, cur, acc) ==
  IF i > Len(lx) THEN (IF cur = <<>> THEN acc ELSE Append(acc, cur))
  ELSE IF lx[i].k = "nl" THEN LinesFrom(lx, i + 1, <<>>, Append(acc, cur))
  ELSE LinesFrom(lx, i + 1, Append(cur, lx[i]), acc)
Lines(lx) == LinesFrom(lx, 1, <<>>, <<>>)
IsComment(l) == Len(l) >= 1 /\ l[1].k = "com"
(* comments are whole lines; an empty line is only admitted at the very end of the text *)
LayoutOK(ls) == /\ \A i \in 1..Len(ls) : (\E j \in 1..Len(ls[i]) : ls[i][j].k = "com") => Len(ls[i]) = 1
                /\ \A i \in 1..Len(ls) : ls[i] = <<>> => \A j \in i..Len(ls) : ls[j] = <<>>
RECURSIVE Flatten(_, _)
Flatten(ls, i) == IF i > Len(ls) THEN <<>> ELSE (IF IsComment(ls[i]) THEN <<>> ELSE ls[i]) \o Flatten(ls, i + 1)

(* ---- DIMACS CNF ------------------------------------------------------------ *)
(* the clauses of a run of numbers: split at 0 *)
RECURSIVE SplitZero(_, _, _, _)
SplitZero(nums, i, cur, acc) ==
  IF i > Len(nums) THEN [clauses |-> acc, open |-> cur]
  ELSE IF nums[i] = 0 THEN SplitZero(nums, i + 1, <<>>, Append(acc, cur))
  ELSE SplitZero(nums, i + 1, Append(cur, nums[i]), acc)
Nums(toks) == [i \in 1..Len(toks) |-> toks[i].v]
(* a comment line must not sit inside a clause: the numbers before it end a clause *)
CommentsBetweenClauses(ls) ==
  \A i \in 1..Len(ls) : IsComment(ls[i]) =>
     LET before == Flatten(SubSeq(ls, 1, i - 1), 1) IN before = <<>> \/ (NumL(before[Len(before)]) /\ before[Len(before)].v = 0)
CnfReadL(n, m, lx) ==
  LET ls == Lines(lx)
      toks == Flatten(ls, 1)
  IN IF ~LayoutOK(ls) \/ (\E i \in 1..Len(toks) : ~NumL(toks[i])) \/ ~CommentsBetweenClauses(ls)
     THEN [wf |-> FALSE, clauses |-> <<>>]
     ELSE LET sp == SplitZero(Nums(toks), 1, <<>>, <<>>) IN
          [wf |-> /\ sp.open = <<>> /\ Len(sp.clauses) = m
                  /\ \A i \in 1..Len(sp.clauses) : \A j \in 1..Len(sp.clauses[i]) : Abs(sp.clauses[i][j]) <= n,
           clauses |-> sp.clauses]
CnfRead(n, m, ts) == CnfReadL(n, m, LexSeq(ts))

(* ---- WCNF ------------------------------------------------------------------ *)
(* one clause per line: weight, literals, 0.  top = 0: no top weight in the header, every clause is   *)
(* soft; otherwise a clause whose weight is top is hard.  cons = constructor records with a weight     *)
(* field (0 = hard)                                                                                    *)
WLineOK(l, n, top) ==
  /\ Len(l) >= 2 /\ NumL(l[Len(l)]) /\ l[Len(l)].v = 0
  /\ NumL(l[1]) /\ l[1].v > 0 /\ (top = 0 \/ l[1].v <= top)
  /\ \A j \in 2..(Len(l) - 1) : NumL(l[j]) /\ l[j].v # 0 /\ Abs(l[j].v) <= n
WLine(l, top) == [k |-> "clause", lits |-> [j \in 1..(Len(l) - 2) |-> l[j + 1].v], w |-> <<>>, rhs |-> 1,
                  weight |-> IF top # 0 /\ l[1].v = top THEN 0 ELSE l[1].v]
WcnfReadL(n, m, top, lx) ==
  LET ls == Lines(lx)
      cl == SelectSeq(ls, LAMBDA l : ~IsComment(l) /\ l # <<>>)
  IN IF ~LayoutOK(ls) \/ Len(cl) # m \/ (\E i \in 1..Len(cl) : ~WLineOK(cl[i], n, top))
     THEN [wf |-> FALSE, cons |-> <<>>]
     ELSE [wf |-> TRUE, cons |-> [i \in 1..Len(cl) |-> WLine(cl[i], top)]]
(* the string form: the token "T" is the top weight; without a top weight in the header it may not occur *)
WcnfRead(n, m, withTop, ts) ==
  IF ~withTop /\ (\E i \in 1..Len(ts) : ts[i] = "T") THEN [wf |-> FALSE, cons |-> <<>>]
  ELSE WcnfReadL(n, m, IF withTop THEN TopWeight ELSE 0, LexSeq(ts))

(* ---- OPB ------------------------------------------------------------------- *)
(* terms: coefficient variable coefficient variable ...  from position i up to (not including) position j *)
TermsOK(l, i, j, n) == /\ j > i /\ (j - i) % 2 = 0
                       /\ \A k \in i..(j - 1) : IF (k - i) % 2 = 0 THEN NumL(l[k]) ELSE VarL(l[k]) /\ Abs(l[k].v) <= n
TermLits(l, i, j) == [k \in 1..((j - i) \div 2) |-> l[i + 2 * k - 1].v]
TermWs(l, i, j)   == [k \in 1..((j - i) \div 2) |-> l[i + 2 * k - 2].v]
IsObjLine(l) == Len(l) >= 1 /\ SymL(l[1], "min:")
ObjLineOK(l, n) == Len(l) >= 4 /\ SymL(l[Len(l)], ";") /\ TermsOK(l, 2, Len(l), n)
ConLineOK(l, n) == /\ Len(l) >= 5 /\ SymL(l[Len(l)], ";") /\ NumL(l[Len(l) - 1])
                   /\ (SymL(l[Len(l) - 2], ">=") \/ SymL(l[Len(l) - 2], "="))
                   /\ TermsOK(l, 1, Len(l) - 2, n)
ConLineL(l) == [k |-> IF SymL(l[Len(l) - 2], "=") THEN "eq" ELSE "gteq", lits |-> TermLits(l, 1, Len(l) - 2),
                w |-> TermWs(l, 1, Len(l) - 2), rhs |-> l[Len(l) - 1].v, weight |-> 0]
ConLine(l) == ConLineL(LexSeq(l))
OpbReadL(n, lx) ==
  LET ls == Lines(lx)
      st == SelectSeq(ls, LAMBDA l : ~IsComment(l) /\ l # <<>>)
      hasObj == Len(st) >= 1 /\ IsObjLine(st[1])
      cons == IF hasObj THEN Tail(st) ELSE st
  IN IF ~LayoutOK(ls) \/ (hasObj /\ ~ObjLineOK(st[1], n)) \/ (\E i \in 1..Len(cons) : ~ConLineOK(cons[i], n))
     THEN [wf |-> FALSE, hasObj |-> FALSE, obj |-> [lits |-> <<>>, w |-> <<>>], cons |-> <<>>]
     ELSE [wf |-> TRUE, hasObj |-> hasObj,
           obj |-> IF hasObj THEN [lits |-> TermLits(st[1], 2, Len(st[1])), w |-> TermWs(st[1], 2, Len(st[1]))]
                   ELSE [lits |-> <<>>, w |-> <<>>],
           cons |-> [i \in 1..Len(cons) |-> ConLineL(cons[i])]]
OpbRead(n, ts) == OpbReadL(n, LexSeq(ts))
=============================================================================
