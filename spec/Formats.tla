------------------------------- MODULE Formats -------------------------------
(***************************************************************************)
(* The three text formats the project reads (properties C13, C18, C19) as   *)
(* REFERENCE READERS over token sequences, and the rule that turns a token  *)
(* sequence into the bytes of a file.                                       *)
(*                                                                          *)
(* A text body is a sequence of tokens (strings).  "NL" ends a line; two    *)
(* tokens on the same line are separated by one blank when rendered.  A     *)
(* comment token stands for a whole comment line and is only well placed    *)
(* alone on its line.  The header line (DIMACS, WCNF) is rendered from the  *)
(* declared counts.  A text that does not end with "NL" is a file whose     *)
(* last line has no newline.                                                *)
(*                                                                          *)
(*   DIMACS CNF   p cnf N M  then M clauses, each a run of non-zero         *)
(*                literals closed by 0; a clause may span lines and a line  *)
(*                may hold several clauses; comment lines (c ...) between   *)
(*                clauses                                                   *)
(*   WCNF         p wcnf N M [TOP]  then M lines  weight lits 0 ; weight    *)
(*                TOP (token "T") marks a hard clause; comment lines        *)
(*   OPB          comment lines (asterisk ...), at most one objective line  *)
(*                min: terms ;  before the constraints, then lines          *)
(*                terms rel int ;  with term = coefficient variable,        *)
(*                rel one of >= and =, variable xK or ~xK                   *)
(*                                                                          *)
(* Each reader returns [wf, ...]: wf = the text is well formed by the       *)
(* rules above (anything else is left unspecified: the properties only      *)
(* speak about well-formed texts), and the abstract file it denotes, in     *)
(* the vocabulary of Logic (clauses; constructor records; cost function).   *)
(* FormatsGen.tla enumerates token strings, classifies them with these      *)
(* readers and writes the well-formed ones out for replay through           *)
(* solver.ParseCNF, explain.ParseCNF, maxsat.ParseWCNF and solver.ParseOPB. *)
(***************************************************************************)
EXTENDS Logic, TLC

(* ---- tokens ------------------------------------------------------------ *)
NumTok == ("0" :> 0) @@ ("1" :> 1) @@ ("-1" :> -1) @@ ("2" :> 2) @@ ("-2" :> -2) @@ ("3" :> 3) @@ ("-3" :> -3)
          @@ ("+0" :> 0) @@ ("+1" :> 1) @@ ("+2" :> 2) @@ ("+3" :> 3) @@ ("4" :> 4) @@ ("+4" :> 4) @@ ("-4" :> -4)
IsNum(t) == t \in DOMAIN NumTok
VarTok == ("x1" :> 1) @@ ("~x1" :> -1) @@ ("x2" :> 2) @@ ("~x2" :> -2) @@ ("x3" :> 3) @@ ("~x3" :> -3)
IsVar(t) == t \in DOMAIN VarTok
TopWeight == 9                      \* what the token "T" is rendered as in a WCNF file

(* ---- rendering ----------------------------------------------------------- *)
TokText(t, kind) ==
  CASE t = "NL" -> "\n"
    [] t = "C"  -> (IF kind = "opb" THEN "* note +1 x1 >= 1 ;" ELSE "c note 1 -2 0")
    [] t = "T"  -> ToString(TopWeight)
    [] OTHER    -> t
RECURSIVE RenderFrom(_, _, _)
RenderFrom(ts, i, kind) ==
  IF i > Len(ts) THEN ""
  ELSE TokText(ts[i], kind)
       \o (IF i < Len(ts) /\ ts[i] # "NL" /\ ts[i + 1] # "NL" THEN " " ELSE "")
       \o RenderFrom(ts, i + 1, kind)
Body(ts, kind) == RenderFrom(ts, 1, kind)
CnfText(n, m, ts)  == "p cnf " \o ToString(n) \o " " \o ToString(m) \o "\n" \o Body(ts, "cnf")
WcnfText(n, m, withTop, ts) ==
  "p wcnf " \o ToString(n) \o " " \o ToString(m) \o (IF withTop THEN " " \o ToString(TopWeight) ELSE "") \o "\n" \o Body(ts, "wcnf")
OpbText(n, m, ts) == "* #variable= " \o ToString(n) \o " #constraint= " \o ToString(m) \o "\n" \o Body(ts, "opb")

(* ---- lines ---------------------------------------------------------------- *)
(* the lines of a text: maximal runs of tokens other than "NL" (a final "NL" does not open a line) *)
RECURSIVE LinesFrom(_, _, _, _)
LinesFrom(ts, i, cur, acc) ==
  IF i > Len(ts) THEN (IF cur = <<>> THEN acc ELSE Append(acc, cur))
  ELSE IF ts[i] = "NL" THEN LinesFrom(ts, i + 1, <<>>, Append(acc, cur))
  ELSE LinesFrom(ts, i + 1, Append(cur, ts[i]), acc)
Lines(ts) == LinesFrom(ts, 1, <<>>, <<>>)
IsComment(l) == Len(l) >= 1 /\ l[1] = "C"
(* comments are whole lines; an empty line is only admitted at the very end of the text *)
LayoutOK(ls) == /\ \A i \in 1..Len(ls) : (\E j \in 1..Len(ls[i]) : ls[i][j] = "C") => ls[i] = <<"C">>
                /\ \A i \in 1..Len(ls) : ls[i] = <<>> => \A j \in i..Len(ls) : ls[j] = <<>>
RECURSIVE Flatten(_, _)
Flatten(ls, i) == IF i > Len(ls) THEN <<>> ELSE (IF IsComment(ls[i]) THEN <<>> ELSE ls[i]) \o Flatten(ls, i + 1)

(* ---- DIMACS CNF ------------------------------------------------------------ *)
(* the clauses of a run of numbers: split at 0 *)
RECURSIVE SplitZero(_, _, _, _)
SplitZero(nums, i, cur, acc) ==
  IF i > Len(nums) THEN [clauses |-> acc, open |-> cur]
  ELSE IF nums[i] = 0 THEN SplitZero(nums, i + 1, <<>>, Append(acc, cur))
  ELSE SplitZero(nums, i + 1, Append(cur, nums[i]), acc)
Nums(toks) == [i \in 1..Len(toks) |-> NumTok[toks[i]]]
(* a comment line must not sit inside a clause: the numbers before it end a clause *)
CommentsBetweenClauses(ls) ==
  \A i \in 1..Len(ls) : IsComment(ls[i]) =>
     LET before == Flatten(SubSeq(ls, 1, i - 1), 1) IN before = <<>> \/ before[Len(before)] = "0"
CnfRead(n, m, ts) ==
  LET ls == Lines(ts)
      toks == Flatten(ls, 1)
  IN IF ~LayoutOK(ls) \/ (\E i \in 1..Len(toks) : ~IsNum(toks[i])) \/ ~CommentsBetweenClauses(ls)
     THEN [wf |-> FALSE, clauses |-> <<>>]
     ELSE LET sp == SplitZero(Nums(toks), 1, <<>>, <<>>) IN
          [wf |-> /\ sp.open = <<>> /\ Len(sp.clauses) = m
                  /\ \A i \in 1..Len(sp.clauses) : \A j \in 1..Len(sp.clauses[i]) : Abs(sp.clauses[i][j]) <= n,
           clauses |-> sp.clauses]

(* ---- WCNF ------------------------------------------------------------------ *)
(* one clause per line: weight, literals, 0.  cons = constructor records with a weight field (0 = hard) *)
WLineOK(l, n, withTop) ==
  /\ Len(l) >= 2 /\ l[Len(l)] = "0"
  /\ (l[1] = "T" /\ withTop) \/ (IsNum(l[1]) /\ NumTok[l[1]] > 0 /\ NumTok[l[1]] < TopWeight)
  /\ \A j \in 2..(Len(l) - 1) : IsNum(l[j]) /\ NumTok[l[j]] # 0 /\ Abs(NumTok[l[j]]) <= n
WLine(l) == [k |-> "clause", lits |-> [j \in 1..(Len(l) - 2) |-> NumTok[l[j + 1]]], w |-> <<>>, rhs |-> 1,
             weight |-> IF l[1] = "T" THEN 0 ELSE NumTok[l[1]]]
WcnfRead(n, m, withTop, ts) ==
  LET ls == Lines(ts)
      cl == SelectSeq(ls, LAMBDA l : ~IsComment(l) /\ l # <<>>)
  IN IF ~LayoutOK(ls) \/ Len(cl) # m \/ (\E i \in 1..Len(cl) : ~WLineOK(cl[i], n, withTop))
     THEN [wf |-> FALSE, cons |-> <<>>]
     ELSE [wf |-> TRUE, cons |-> [i \in 1..Len(cl) |-> WLine(cl[i])]]

(* ---- OPB ------------------------------------------------------------------- *)
(* terms: coefficient variable coefficient variable ...  from position i up to (not including) position j *)
TermsOK(l, i, j, n) == /\ j > i /\ (j - i) % 2 = 0
                       /\ \A k \in i..(j - 1) : IF (k - i) % 2 = 0 THEN IsNum(l[k]) ELSE IsVar(l[k]) /\ Abs(VarTok[l[k]]) <= n
TermLits(l, i, j) == [k \in 1..((j - i) \div 2) |-> VarTok[l[i + 2 * k - 1]]]
TermWs(l, i, j)   == [k \in 1..((j - i) \div 2) |-> NumTok[l[i + 2 * k - 2]]]
IsObjLine(l) == Len(l) >= 1 /\ l[1] = "min:"
ObjLineOK(l, n) == Len(l) >= 4 /\ l[Len(l)] = ";" /\ TermsOK(l, 2, Len(l), n)
ConLineOK(l, n) == /\ Len(l) >= 5 /\ l[Len(l)] = ";" /\ IsNum(l[Len(l) - 1]) /\ l[Len(l) - 2] \in {">=", "="}
                   /\ TermsOK(l, 1, Len(l) - 2, n)
ConLine(l) == [k |-> IF l[Len(l) - 2] = "=" THEN "eq" ELSE "gteq", lits |-> TermLits(l, 1, Len(l) - 2),
               w |-> TermWs(l, 1, Len(l) - 2), rhs |-> NumTok[l[Len(l) - 1]], weight |-> 0]
OpbRead(n, ts) ==
  LET ls == Lines(ts)
      st == SelectSeq(ls, LAMBDA l : ~IsComment(l) /\ l # <<>>)
      hasObj == Len(st) >= 1 /\ IsObjLine(st[1])
      cons == IF hasObj THEN Tail(st) ELSE st
  IN IF ~LayoutOK(ls) \/ (hasObj /\ ~ObjLineOK(st[1], n)) \/ (\E i \in 1..Len(cons) : ~ConLineOK(cons[i], n))
     THEN [wf |-> FALSE, hasObj |-> FALSE, obj |-> [lits |-> <<>>, w |-> <<>>], cons |-> <<>>]
     ELSE [wf |-> TRUE, hasObj |-> hasObj,
           obj |-> IF hasObj THEN [lits |-> TermLits(st[1], 2, Len(st[1])), w |-> TermWs(st[1], 2, Len(st[1]))]
                   ELSE [lits |-> <<>>, w |-> <<>>],
           cons |-> [i \in 1..Len(cons) |-> ConLine(cons[i])]]
=============================================================================
