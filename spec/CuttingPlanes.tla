---------------------------- MODULE CuttingPlanes ----------------------------
(***************************************************************************)
(* The operations of the cutting-planes conflict analysis                   *)
(* (solver/learn_pb.go, property C14) on pseudo-boolean constraints in the  *)
(* "set" representation of the code: one signed coefficient per variable    *)
(* (positive: the variable, negative: its negation, 0: absent) and a        *)
(* degree:   Sum_{v} |w[v]| * lit(v)  >=  d .                               *)
(*                                                                          *)
(*   RoundToOne(pb, x, sigma)  weaken every literal that is not falsified   *)
(*                             under sigma and whose coefficient is not a   *)
(*                             multiple of |w[x]|, then divide by |w[x]|    *)
(*                             rounding every coefficient AWAY FROM ZERO    *)
(*                             and the degree up                            *)
(*   Clash(pb1, pb2)           add the two constraints; literals of         *)
(*                             opposite polarity cancel: the degree drops   *)
(*                             by the smaller of the two coefficients       *)
(*                                                                          *)
(* Theorems checked by TLC for every pair of constraints over N variables   *)
(* with coefficients in -W..W, every degree, every partial assignment and   *)
(* every pivot variable: the result of each operation is a consequence of   *)
(* its operands (so every learned constraint is a consequence of the        *)
(* problem), and the pivot is eliminated by a clash after rounding.         *)
(* Rounding = "towardzero" (C division on a negative coefficient, one of    *)
(* the seeded changes) violates RoundSound.                                 *)
(***************************************************************************)
EXTENDS Integers, FiniteSets, TLC, CPOps, Json, CSV, IOUtils

CONSTANTS N, W, Rounding     \* Rounding: "away" (the code) or "ceil" (ceiling division also for negative coefficients)
Vars == 1..N
Abs(x) == IF x < 0 THEN -x ELSE x
PB == [w : [Vars -> (-W)..W], d : 0..(N * W)]
Asg == [Vars -> BOOLEAN]
(* partial assignment: 0 unassigned, 1 true, -1 false *)
Sigma == [Vars -> {-1, 0, 1}]

VARIABLES pb1, pb2, x, sigma
vars == <<pb1, pb2, x, sigma>>
Init == pb1 \in PB /\ pb2 \in PB /\ x \in Vars /\ sigma \in Sigma
Next == UNCHANGED vars
Spec == Init /\ [][Next]_vars

RECURSIVE SumTo(_, _, _)
SumTo(pb, a, v) == IF v = 0 THEN 0
                   ELSE SumTo(pb, a, v - 1) + (IF pb.w[v] > 0 /\ a[v] THEN pb.w[v]
                                               ELSE IF pb.w[v] < 0 /\ ~a[v] THEN -pb.w[v] ELSE 0)
Sat(a, pb) == SumTo(pb, a, N) >= pb.d
ModelsOf(S) == {a \in Asg : \A pb \in S : Sat(a, pb)}
Entailed(S, pb) == \A a \in ModelsOf(S) : Sat(a, pb)

(* literal of variable v in pb is falsified under sigma *)
Falsified(pb, v, sg) == (pb.w[v] > 0 /\ sg[v] = -1) \/ (pb.w[v] < 0 /\ sg[v] = 1)
CeilDiv(a, b) == IF a % b = 0 THEN a \div b ELSE (a \div b) + 1      \* a >= 0, b > 0
DivCoef(wj, c) == IF wj % c = 0 THEN wj \div c
                  ELSE IF Rounding = "away" THEN (IF wj > 0 THEN (wj \div c) + 1 ELSE -((-wj) \div c) - 1)
                  ELSE (* "ceil": the same helper for coefficients and degree *)
                       (IF wj > 0 THEN (wj \div c) + 1 ELSE -((-wj) \div c))
RECURSIVE DroppedTo(_, _, _)
DroppedTo(pb, keep, v) == IF v = 0 THEN 0 ELSE DroppedTo(pb, keep, v - 1) + (IF keep[v] THEN 0 ELSE Abs(pb.w[v]))
SumOfDropped(pb, keep) == DroppedTo(pb, keep, N)
Weaken(pb, keep) == [w |-> [v \in Vars |-> IF keep[v] THEN pb.w[v] ELSE 0],
                     d |-> pb.d - SumOfDropped(pb, keep)]
RoundToOne(pb, y, sg) ==
  LET c == Abs(pb.w[y]) IN
  IF c <= 1 THEN pb
  ELSE LET keep == [v \in Vars |-> pb.w[v] = 0 \/ pb.w[v] % c = 0 \/ Falsified(pb, v, sg)]
           wk == Weaken(pb, keep)
           dd == IF wk.d <= 0 THEN 0 ELSE CeilDiv(wk.d, c)
       IN [w |-> [v \in Vars |-> IF wk.w[v] = 0 THEN 0 ELSE DivCoef(wk.w[v], c)], d |-> dd]
Min2(a, b) == IF a <= b THEN a ELSE b
RECURSIVE CancelTo(_, _, _)
CancelTo(p, q, v) == IF v = 0 THEN 0
                     ELSE CancelTo(p, q, v - 1) + (IF p.w[v] * q.w[v] < 0 THEN Min2(Abs(p.w[v]), Abs(q.w[v])) ELSE 0)
Clash(p, q) == [w |-> [v \in Vars |-> p.w[v] + q.w[v]], d |-> p.d + q.d - CancelTo(p, q, N)]

(* ---- theorems ----------------------------------------------------------- *)
RoundSound == pb1.w[x] # 0 => Entailed({pb1}, RoundToOne(pb1, x, sigma))
ClashSound == Entailed({pb1, pb2}, Clash(pb1, pb2))
(* conflict analysis: pb1 has the literal of x falsified, pb2 is the reason of x: opposite signs. *)
(* After rounding both to coefficient 1 on x, the clash eliminates x.                             *)
PivotEliminated ==
  (pb1.w[x] * pb2.w[x] < 0 /\ Falsified(pb1, x, sigma)) =>
     Clash(RoundToOne(pb1, x, sigma), RoundToOne(pb2, x, sigma)).w[x] = 0

(* ---- the functions the code is compared with (CPOps.tla, CPTrace.tla) are these operations -------- *)
OpsAgree ==
  Rounding = "away" =>
    /\ pb1.w[x] # 0 => LET g == GRound(pb1, x, sigma)  r == RoundToOne(pb1, x, sigma)
                       IN g.defined => (g.w = r.w /\ g.d = r.d)
    /\ GClash(pb1, pb2) = Clash(pb1, pb2)

(* ---- spec -> code: every (constraint, pivot, assignment) and every pair of constraints ------------ *)
EmitFile == IF "VERIF_EMIT" \in DOMAIN IOEnv THEN IOEnv.VERIF_EMIT ELSE "cp_emit.ndjson"
ZeroPB == [w |-> [v \in Vars |-> 0], d |-> 0]
EmitOps ==
  /\ (pb2 = ZeroPB /\ pb1.w[x] # 0 /\ pb1.d >= 1) =>
        CSVWrite("%1$s", <<ToJson([op |-> "round", w |-> pb1.w, d |-> pb1.d, x |-> x, sigma |-> sigma])>>, EmitFile)
  /\ (x = 1 /\ sigma = [v \in Vars |-> 0]) =>
        CSVWrite("%1$s", <<ToJson([op |-> "clash", w |-> pb1.w, d |-> pb1.d, w2 |-> pb2.w, d2 |-> pb2.d])>>, EmitFile)
=============================================================================
