SPECIFICATION Spec
CONSTANTS
  NV = 3
  MaxK = 3
  L = 2
  Repass = "fixpoint"
  TrueLit = "remove"
INVARIANTS ModelsPreserved Fixpoint StatusSat EmitInit
CHECK_DEADLOCK FALSE
