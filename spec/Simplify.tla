------------------------------- MODULE Simplify -------------------------------
(***************************************************************************)
(* Parse-time simplification of CNF problems (solver/problem.go simplify2,  *)
(* reached from ParseSlice, ParseSliceNb and ParseCNF; property C01), as    *)
(* the pass-based algorithm the code runs:                                  *)
(*                                                                          *)
(*   Examine   clause i of the list: a literal bound true removes the       *)
(*             clause, a literal bound false is removed from it; a clause   *)
(*             left empty makes the problem Unsat; a clause left with one   *)
(*             literal binds it (a new unit), is removed, and requests      *)
(*             another pass; removal moves the LAST clause into position i  *)
(*   EndPass   another pass over the clauses if a unit was found, else done *)
(*                                                                          *)
(*   Repass = "all"     every clause is examined again (the code)           *)
(*   Repass = "prefix"  only the clauses before the position of the last    *)
(*                      unit are examined again (one of the seeded          *)
(*                      changes): Fixpoint is VIOLATED                      *)
(*                                                                          *)
(* Properties when done: the units plus the remaining clauses have exactly  *)
(* the models of the input (ModelsPreserved); no remaining clause mentions  *)
(* a bound variable and every remaining clause has at least two literals    *)
(* (Fixpoint) - the two-watched-literal scheme of the search relies on it:  *)
(* a stale false literal in a watched position is never visited.            *)
(* Inputs: every sequence of at most L distinct clauses from a universe     *)
(* made of units, implications and longer clauses over 5 variables, in      *)
(* every order (the order decides how many passes are needed).              *)
(***************************************************************************)
EXTENDS Logic, TLC, Json, CSV, IOUtils

CONSTANTS L, Repass
N == 5
Univ == { <<1>>, <<2>>, <<-1>>, <<-1, 2>>, <<-2, 3>>, <<-2, 4>>, <<-1, 3>>, <<-3, 4>>, <<3, 4>>,
          <<-3, -4, 5>>, <<-3, -4, -5>>, <<3, -4, 5>>, <<5, 1>> }
RECURSIVE SeqsOf(_)
SeqsOf(k) == IF k = 0 THEN {<<>>}
             ELSE LET shorter == SeqsOf(k - 1) IN
                  shorter \cup {Append(s, c) : s \in {t \in shorter : Len(t) = k - 1}, c \in Univ}
Inputs == {s \in SeqsOf(L) : \A a, b \in 1..Len(s) : a # b => s[a] # s[b]}

VARIABLES input, cls, nb, val, i, again, lastUnit, endAt, status
vars == <<input, cls, nb, val, i, again, lastUnit, endAt, status>>

Init == /\ input \in Inputs /\ cls = input /\ nb = Len(input)
        /\ val = [v \in 1..N |-> 0]          \* 0 unbound, 1 true, -1 false
        /\ i = 1 /\ again = FALSE /\ lastUnit = 0 /\ endAt = Len(input) /\ status = "running"

LitVal(l) == IF l > 0 THEN val[l] ELSE -val[-l]
Remaining(c) == SelectSeq(c, LAMBDA l : LitVal(l) = 0)
IsSat(c) == \E j \in 1..Len(c) : LitVal(c[j]) = 1
RemoveAt(s, k, n) == [j \in 1..Len(s) |-> IF j = k THEN s[n] ELSE s[j]]     \* swap the last active clause in

Examine ==
  /\ status = "running" /\ i <= nb /\ i <= endAt
  /\ LET c == cls[i]
         r == Remaining(c)
     IN IF IsSat(c)
        THEN /\ cls' = RemoveAt(cls, i, nb) /\ nb' = nb - 1
             /\ UNCHANGED <<val, i, again, lastUnit, status>>
        ELSE IF Len(r) = 0
        THEN status' = "unsat" /\ UNCHANGED <<cls, nb, val, i, again, lastUnit>>
        ELSE IF Len(r) = 1
        THEN /\ val' = [val EXCEPT ![Abs(r[1])] = IF r[1] > 0 THEN 1 ELSE -1]
             /\ cls' = RemoveAt(cls, i, nb) /\ nb' = nb - 1
             /\ again' = TRUE /\ lastUnit' = i - 1            \* 0-based position, as in the code
             /\ UNCHANGED <<i, status>>
        ELSE /\ cls' = [cls EXCEPT ![i] = r] /\ i' = i + 1
             /\ UNCHANGED <<nb, val, again, lastUnit, status>>
  /\ UNCHANGED <<input, endAt>>

EndPass ==
  /\ status = "running" /\ (i > nb \/ i > endAt)
  /\ IF again /\ (Repass = "all" \/ lastUnit > 0)
     THEN /\ i' = 1 /\ again' = FALSE /\ lastUnit' = 0
          /\ endAt' = (IF Repass = "all" THEN Len(input) ELSE lastUnit)
          /\ UNCHANGED status
     ELSE status' = "done" /\ UNCHANGED <<i, again, lastUnit, endAt>>
  /\ UNCHANGED <<input, cls, nb, val>>

Next == Examine \/ EndPass
Spec == Init /\ [][Next]_vars

Units == {v \in 1..N : val[v] # 0}
Active == [j \in 1..nb |-> cls[j]]
ResultModels == {a \in Assignments(N) : /\ \A v \in Units : a[v] = (val[v] = 1)
                                        /\ \A j \in 1..nb : SatCl(a, cls[j])}
ModelsPreserved == /\ status = "done" => ResultModels = ClauseModels(N, input)
                   /\ status = "unsat" => ClauseModels(N, input) = {}
Fixpoint == status = "done" => \A j \in 1..nb : /\ Len(cls[j]) >= 2
                                               /\ \A k \in 1..Len(cls[j]) : val[Abs(cls[j][k])] = 0

EmitFile == IF "VERIF_EMIT" \in DOMAIN IOEnv THEN IOEnv.VERIF_EMIT ELSE "simp_emit.ndjson"
IsInit == cls = input /\ i = 1 /\ ~again /\ nb = Len(input) /\ status = "running" /\ Units = {} /\ endAt = Len(input)
EmitInput == (IsInit /\ Len(input) >= 2) => CSVWrite("%1$s", <<ToJson([n |-> N, F |-> input])>>, EmitFile)
=============================================================================
