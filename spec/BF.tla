--------------------------------- MODULE BF ---------------------------------
(***************************************************************************)
(* Boolean formulas (package bf): abstract syntax and standard semantics.   *)
(*                                                                          *)
(* A formula is a tree of records [op, i, kids]:                            *)
(*   "v"    variable number i (index into the case's list of names)         *)
(*   "T", "F"                 constants                                     *)
(*   "not"  one kid;   "and", "or"  any number of kids (0 included)         *)
(*   "imp", "eq", "xor"       two kids                                      *)
(*   "uniq" exactly one of the kids (variables) is true                     *)
(* Assignments are functions 1..k -> BOOLEAN over the k names.              *)
(***************************************************************************)
EXTENDS Logic

RECURSIVE Eval(_, _)
Eval(f, a) ==
  CASE f.op = "v"    -> a[f.i]
    [] f.op = "T"    -> TRUE
    [] f.op = "F"    -> FALSE
    [] f.op = "not"  -> ~Eval(f.kids[1], a)
    [] f.op = "and"  -> \A j \in 1..Len(f.kids) : Eval(f.kids[j], a)
    [] f.op = "or"   -> \E j \in 1..Len(f.kids) : Eval(f.kids[j], a)
    [] f.op = "imp"  -> Eval(f.kids[1], a) => Eval(f.kids[2], a)
    [] f.op = "eq"   -> Eval(f.kids[1], a) <=> Eval(f.kids[2], a)
    [] f.op = "xor"  -> Eval(f.kids[1], a) # Eval(f.kids[2], a)
    [] f.op = "uniq" -> Cardinality({j \in 1..Len(f.kids) : Eval(f.kids[j], a)}) = 1

(* the satisfying assignments of f over k names *)
TruthTable(f, k) == {a \in Assignments(k) : Eval(f, a)}

(* constructors, one record shape for every node *)
V(i) == [op |-> "v", i |-> i, kids |-> <<>>]
Un(op, f) == [op |-> op, i |-> 0, kids |-> <<f>>]
Bin(op, l, r) == [op |-> op, i |-> 0, kids |-> <<l, r>>]
Nary(op, ks) == [op |-> op, i |-> 0, kids |-> ks]
Const(op) == [op |-> op, i |-> 0, kids |-> <<>>]

RECURSIVE Size(_)
Size(f) == 1 + (IF Len(f.kids) = 0 THEN 0
                ELSE LET S[j \in 0..Len(f.kids)] == IF j = 0 THEN 0 ELSE S[j - 1] + Size(f.kids[j])
                     IN S[Len(f.kids)])

(* polarity analysis: does an exactly-one group of at least m variables occur at a        *)
(* non-positive polarity (under an odd number of negations, or under eq / xor / the        *)
(* antecedent side is negative)?  pol: 1 positive, -1 negative, 0 both.                    *)
RECURSIVE UniqNonPos(_, _, _)
UniqNonPos(f, pol, m) ==
  CASE f.op = "uniq" -> Len(f.kids) >= m /\ pol # 1
    [] f.op = "not"  -> UniqNonPos(f.kids[1], -pol, m)
    [] f.op \in {"and", "or"} -> \E j \in 1..Len(f.kids) : UniqNonPos(f.kids[j], pol, m)
    [] f.op = "imp"  -> UniqNonPos(f.kids[1], -pol, m) \/ UniqNonPos(f.kids[2], pol, m)
    [] f.op \in {"eq", "xor"} -> UniqNonPos(f.kids[1], 0, m) \/ UniqNonPos(f.kids[2], 0, m)
    [] OTHER -> FALSE
=============================================================================
