---------------------------- MODULE ExplainTrace ----------------------------
(***************************************************************************)
(* Code -> spec for package explain: MUS extraction (C07), the RUP          *)
(* certificate checker and unsat-subset extraction (C08).                   *)
(*                                                                          *)
(* Case: [id, n, clauses, ev]; clauses = the CNF as written (sequence of    *)
(* clauses, a multiset: repetitions matter).  Problem dumps are records     *)
(* [n, nb, clauses] read through the public fields NbVars, NbClauses,       *)
(* Clauses.                                                                 *)
(***************************************************************************)
EXTENDS Logic, TLC, Json, IOUtils

Cases == ndJsonDeserialize(IOEnv.VERIF_TRACE)
OutFile == IOEnv.VERIF_OUT

VARIABLES ci, ei, mods, bad, nev
vars == <<ci, ei, mods, bad, nev>>

Case == Cases[ci]
Ev == Case.ev[ei]
N == Case.n
F == Case.clauses
Unsat == mods = {}

(* U is a sub-multiset of the input, clauses identified by their set of literals *)
SubOfInput(U) == SubMultiset(U, F)

(* ---- C07 ---------------------------------------------------------------- *)
MusWhy(e) ==
  IF e.before # e.after THEN "mus-input-modified"
  ELSE IF e.err # ~Unsat THEN (IF e.err THEN "mus-error-on-unsat" ELSE "mus-no-error-on-sat")
  ELSE IF e.err THEN ""
  ELSE IF e.res.nb # Len(e.res.clauses) THEN "mus-nbclauses"
  ELSE IF ~SubOfInput(e.res.clauses) THEN "mus-not-subset"
  ELSE IF \E i \in 1..Len(e.res.clauses) : MaxVar(e.res.clauses[i]) > N THEN "mus-not-subset"
  ELSE IF N <= 8 THEN
       (IF ~UnsatCl(N, e.res.clauses) THEN "mus-satisfiable"
        ELSE IF \E k \in 1..Len(e.res.clauses) : UnsatCl(N, Without(e.res.clauses, k)) THEN "mus-not-minimal"
        ELSE "")
  ELSE (* larger cases: one pass over the assignments (Logic!FalsSets, lemma checked in MUS.tla) *)
       LET W == FalsSets(N, e.res.clauses) IN
       IF ~UnsatW(W) THEN "mus-satisfiable"
       ELSE IF ~MinimalW(W, Len(e.res.clauses)) THEN "mus-not-minimal"
       ELSE ""

(* ---- C08 ---------------------------------------------------------------- *)
F0 == {Range(F[i]) : i \in 1..Len(F)}
AllEntailed(cert) == \A i \in 1..Len(cert) : EntailsCl(mods, cert[i])
(* the lines up to and including the first empty clause (a checker may stop there) *)
FirstEmpty(cert) == IF \E i \in 1..Len(cert) : cert[i] = <<>>
                    THEN CHOOSE i \in 1..Len(cert) : cert[i] = <<>> /\ \A j \in 1..(i - 1) : cert[j] # <<>>
                    ELSE Len(cert)
(* a line holding a literal and its negation is a tautology: whether a checker must accept such  *)
(* a degenerate line is left open (the completeness clause is only applied without them)        *)
Tautological(cert) == \E i \in 1..Len(cert) : \E j, k \in 1..Len(cert[i]) : cert[i][j] = -cert[i][k]
CheckWhy(e) ==
  IF e.before # e.after THEN "check-problem-modified"
  ELSE IF e.err THEN "check-error"
  ELSE IF e.valid /\ ~AllEntailed(SubSeq(e.cert, 1, FirstEmpty(e.cert))) THEN "check-accepted-non-consequence"
  ELSE IF ~e.valid /\ FirstNonRUP(F0, e.cert) = 0 /\ ~Tautological(e.cert) THEN "check-rejected-rup-certificate"
  ELSE IF e.valid2 # e.valid THEN "check-not-reusable"
  ELSE ""

SubsetWhy(e) ==
  IF e.before # e.after THEN "subset-input-modified"
  ELSE IF e.err # ~Unsat THEN (IF e.err THEN "subset-error-on-unsat" ELSE "subset-no-error-on-sat")
  ELSE IF e.err THEN ""
  ELSE IF ~SubOfInput(e.res.clauses) THEN "subset-not-subset"
  ELSE IF ~UnsatCl(N, e.res.clauses) THEN "subset-satisfiable"
  ELSE ""

(* local tier for the solvers the MUS methods create (hook events, build tag verif): every clause a  *)
(* solver learns must follow by unit propagation from the clauses it was given, the clauses added     *)
(* since, and the clauses it learned before - never from its current assumptions.  Diagnostic.        *)
RECURSIVE LearnFold(_, _, _)
LearnFold(wb, i, db) ==
  IF i > Len(wb) THEN ""
  ELSE LET e == wb[i] IN
       IF e.k = "new" THEN LearnFold(wb, i + 1, {Range(e.clauses[j]) : j \in 1..Len(e.clauses)} \cup {{e.units[j]} : j \in 1..Len(e.units)})
       ELSE IF e.k \in {"append", "block"} THEN LearnFold(wb, i + 1, db \cup {Range(e.lits)})
       ELSE IF e.k = "learn"
       THEN IF RUP(db, Range(e.lits)) THEN LearnFold(wb, i + 1, db \cup {Range(e.lits)}) ELSE "diag:learned-clause-not-rup"
       ELSE LearnFold(wb, i + 1, db)
First(a, b2) == IF a # "" THEN a ELSE b2

Why == CASE Ev.op = "mus"     -> First(MusWhy(Ev), LearnFold(Ev.wb, 1, {}))
         [] Ev.op = "check"   -> CheckWhy(Ev)
         [] Ev.op = "subset"  -> SubsetWhy(Ev)
         [] Ev.op = "skip"    -> ""
         [] Ev.op = "crash"   -> "crash"
         [] Ev.op = "timeout" -> "timeout"
         [] OTHER             -> "unknown-event"

Init == /\ ci = 1 /\ ei = 1 /\ bad = <<>> /\ nev = 0
        /\ mods = IF Len(Cases) >= 1 THEN ClauseModels(Cases[1].n, Cases[1].clauses) ELSE {}

Step == /\ ci <= Len(Cases) /\ ei <= Len(Case.ev)
        /\ LET why == Why IN
           bad' = IF why = "" THEN bad ELSE Append(bad, <<Case.id, ei, why>>)
        /\ ei' = ei + 1 /\ nev' = nev + 1 /\ UNCHANGED <<ci, mods>>

NextCase == /\ ci <= Len(Cases) /\ ei > Len(Case.ev)
            /\ ci' = ci + 1 /\ ei' = 1 /\ UNCHANGED <<bad, nev>>
            /\ mods' = IF ci + 1 <= Len(Cases) THEN ClauseModels(Cases[ci + 1].n, Cases[ci + 1].clauses) ELSE {}

Next == Step \/ NextCase
Spec == Init /\ [][Next]_vars
Done == ci > Len(Cases)
Emit == Done => JsonSerialize(OutFile, [cases |-> Len(Cases), events |-> nev, bad |-> bad])
=============================================================================
