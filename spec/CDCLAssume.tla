----------------------------- MODULE CDCLAssume -----------------------------
(***************************************************************************)
(* CDCL.tla with ASSUMPTIONS (solver.Assume followed by Solve; properties   *)
(* C10 and, through the MUS methods that reuse one solver under changing    *)
(* assumptions, C07).  The assumption literals sit at the bottom level of   *)
(* the trail like facts, but without a reason and without being            *)
(* consequences of the formula: conflict analysis can never resolve them    *)
(* away, so their negations stay in the learned clauses, and that is what   *)
(* keeps every learned clause a consequence of the FORMULA ALONE - it may   *)
(* be kept for the next round under other assumptions.                      *)
(*                                                                          *)
(*   Fail      a conflict at the bottom level: Unsat UNDER THE ASSUMPTIONS  *)
(*   Minimise  drops a literal whose reason is covered by the clause;       *)
(*             Shortcut = TRUE also treats a reason literal of the bottom   *)
(*             level that is not an assumption as covered (seeded change    *)
(*             C07-out6): it may be a mere consequence of the assumptions,  *)
(*             and LearnEntailed fails                                      *)
(*                                                                          *)
(* Initial states: every formula with at most K clauses over N variables    *)
(* (or the single formula WitnessF when FixedF = "chain") x every consistent *)
(* set of at most A assumption literals.                                    *)
(***************************************************************************)
EXTENDS Logic, TLC, Json, CSV, IOUtils

CONSTANTS A,          \* at most A assumption literals
          Shortcut,   \* the seeded minimisation shortcut
          FixedF,     \* "" or "chain": the one formula to explore
          N,          \* variables 1..N
          K,          \* at most K clauses in the input formula
          MaxLen,     \* clauses of the input have at most MaxLen literals
          MaxLearn,   \* bound on the number of learning steps (termination of the model)
          MaxRestart  \* bound on the number of restarts

Vars == 1..N
Lit == {v : v \in Vars} \cup {-v : v \in Vars}
ClauseU == {c \in SUBSET Lit : c # {} /\ Cardinality(c) <= MaxLen /\ \A l \in c : -l \notin c}

VARIABLES F,        \* the input formula: a set of clauses (sets of literals)
          L,        \* learned clauses currently held
          trail,    \* sequence of [lit, lvl, reason]; reason = NONE for a decision
          confl,    \* NONE or the clause under analysis
          status,   \* "Indet", "Sat", "Unsat" (= unsatisfiable under the assumptions)
          asm,      \* the assumption literals
          nlearn, nrestart
vars == <<F, L, trail, confl, status, asm, nlearn, nrestart>>

NONE == {0}
ASM == {0, 1, -1}       \* the "reason" of an assumption: no clause (clauses are never tautological)
Assigned == {trail[i].lit : i \in 1..Len(trail)}
IsFalse(l) == -l \in Assigned
IsTrue(l) == l \in Assigned
Undef(l) == l \notin Assigned /\ -l \notin Assigned
CurLvl == IF trail = <<>> THEN 0 ELSE trail[Len(trail)].lvl
LvlOf(l) == LET i == CHOOSE i \in 1..Len(trail) : trail[i].lit \in {l, -l} IN trail[i].lvl
ReasonOf(l) == LET i == CHOOSE i \in 1..Len(trail) : trail[i].lit = l IN trail[i].reason
DB == F \cup L

SatAsg(a, c) == \E l \in c : (l > 0 /\ a[l]) \/ (l < 0 /\ ~a[-l])
ModelsOf(S) == {a \in [Vars -> BOOLEAN] : \A c \in S : SatAsg(a, c)}

(* the formula explored when FixedF = "chain" (configuration files cannot hold negative numbers):  *)
(* 1 -> 2 -> 3 (assuming 1 makes 2 and 3 consequences of the assumption), 3 & 4 -> 5, not (4 & 5)    *)
WitnessF == {{-1, 2}, {-2, 3}, {-3, -4, 5}, {-4, -5}}
SetToSeq(S) == LET RECURSIVE Go(_)
                   Go(T) == IF T = {} THEN <<>> ELSE LET x == CHOOSE x \in T : TRUE IN <<x>> \o Go(T \ {x})
               IN Go(S)
AsmTrail(S) == LET q == SetToSeq(S) IN [i \in 1..Len(q) |-> [lit |-> q[i], lvl |-> 0, reason |-> ASM]]
Init == /\ F \in (IF FixedF = "" THEN {S \in SUBSET ClauseU : Cardinality(S) <= K} ELSE {WitnessF})
        /\ asm \in {S \in SUBSET Lit : Cardinality(S) <= A /\ \A l \in S : -l \notin S}
        /\ trail = AsmTrail(asm)
        /\ L = {} /\ confl = NONE /\ status = "Indet" /\ nlearn = 0 /\ nrestart = 0

NoUnit  == \A c \in DB : ~(\E l \in c : Undef(l) /\ \A l2 \in c \ {l} : IsFalse(l2))
NoConfl == \A c \in DB : ~(\A l \in c : IsFalse(l))

Propagate == /\ status = "Indet" /\ confl = NONE
             /\ \E c \in DB : \E l \in c :
                  /\ Undef(l) /\ \A l2 \in c \ {l} : IsFalse(l2)
                  /\ trail' = Append(trail, [lit |-> l, lvl |-> CurLvl, reason |-> c])
             /\ UNCHANGED <<F, L, confl, status, asm, nlearn, nrestart>>

Conflict == /\ status = "Indet" /\ confl = NONE
            /\ \E c \in DB : (\A l \in c : IsFalse(l)) /\ confl' = c
            /\ UNCHANGED <<F, L, trail, status, asm, nlearn, nrestart>>

(* the code decides only when propagation is complete and there is no conflict *)
Decide == /\ status = "Indet" /\ confl = NONE /\ NoUnit /\ NoConfl
          /\ \E l \in Lit : Undef(l)
               /\ trail' = Append(trail, [lit |-> l, lvl |-> CurLvl + 1, reason |-> NONE])
          /\ UNCHANGED <<F, L, confl, status, asm, nlearn, nrestart>>

Explain == /\ status = "Indet" /\ confl # NONE /\ CurLvl > 0
           /\ Cardinality({l \in confl : LvlOf(l) = CurLvl}) > 1
           /\ \E l \in confl : /\ LvlOf(l) = CurLvl /\ ReasonOf(-l) \notin {NONE, ASM}
                               /\ confl' = (confl \ {l}) \cup (ReasonOf(-l) \ {-l})
           /\ UNCHANGED <<F, L, trail, status, asm, nlearn, nrestart>>

(* minimizeLearned: a literal of a lower level whose reason's other literals are all in the clause *)
Minimise == /\ status = "Indet" /\ confl # NONE /\ CurLvl > 0
            /\ Cardinality({l \in confl : LvlOf(l) = CurLvl}) = 1
            /\ \E l \in confl : /\ LvlOf(l) < CurLvl /\ ReasonOf(-l) \notin {NONE, ASM}
                                /\ \A r \in ReasonOf(-l) \ {-l} :
                                      \/ r \in confl
                                      \/ (Shortcut /\ LvlOf(r) = 0 /\ -r \notin asm)    \* bottom level, not an assumption
                                /\ confl' = confl \ {l}
            /\ UNCHANGED <<F, L, trail, status, asm, nlearn, nrestart>>

Backjump == /\ status = "Indet" /\ confl # NONE /\ CurLvl > 0 /\ nlearn < MaxLearn
            /\ Cardinality({l \in confl : LvlOf(l) = CurLvl}) = 1
            /\ LET uip == CHOOSE l \in confl : LvlOf(l) = CurLvl
                   others == confl \ {uip}
                   bt == IF others = {} THEN 0
                         ELSE CHOOSE m \in {LvlOf(l) : l \in others} : \A l \in others : LvlOf(l) <= m
                   keep == SelectSeq(trail, LAMBDA e : e.lvl <= bt)
               IN /\ trail' = Append(keep, [lit |-> uip, lvl |-> bt, reason |-> confl])
                  /\ L' = L \cup {confl}
            /\ confl' = NONE /\ nlearn' = nlearn + 1 /\ UNCHANGED <<F, status, asm, nrestart>>

Fail    == /\ status = "Indet" /\ confl # NONE /\ CurLvl = 0
           /\ status' = "Unsat" /\ UNCHANGED <<F, L, trail, confl, asm, nlearn, nrestart>>

Succeed == /\ status = "Indet" /\ confl = NONE /\ NoConfl /\ \A v \in Vars : ~Undef(v)
           /\ status' = "Sat" /\ UNCHANGED <<F, L, trail, confl, asm, nlearn, nrestart>>

Restart == /\ status = "Indet" /\ confl = NONE /\ CurLvl > 0 /\ nrestart < MaxRestart
           /\ trail' = SelectSeq(trail, LAMBDA e : e.lvl = 0)
           /\ nrestart' = nrestart + 1 /\ UNCHANGED <<F, L, confl, status, asm, nlearn>>

Forget  == /\ status = "Indet" /\ confl = NONE
           /\ \E c \in L : (\A i \in 1..Len(trail) : trail[i].reason # c) /\ L' = L \ {c}
           /\ UNCHANGED <<F, trail, confl, status, asm, nlearn, nrestart>>

Next == Propagate \/ Conflict \/ Decide \/ Explain \/ Minimise \/ Backjump \/ Fail \/ Succeed \/ Restart \/ Forget
Spec == Init /\ [][Next]_vars

(* ---- invariants (C01) ---------------------------------------------------- *)
TypeOK == /\ status \in {"Indet", "Sat", "Unsat"}
          /\ \A i \in 1..Len(trail) : trail[i].lit \in Lit
TrailConsistent == /\ \A i, j \in 1..Len(trail) : i # j => trail[i].lit # trail[j].lit /\ trail[i].lit # -trail[j].lit
                   /\ \A i, j \in 1..Len(trail) : i < j => trail[i].lvl <= trail[j].lvl
(* every propagated literal is forced by its reason under the earlier part of the trail *)
ReasonForces == \A i \in 1..Len(trail) : trail[i].reason \notin {NONE, ASM} =>
                   /\ trail[i].lit \in trail[i].reason
                   /\ \A l \in trail[i].reason \ {trail[i].lit} : \E j \in 1..(i - 1) : trail[j].lit = -l
AsmModels == {a \in ModelsOf(F) : \A l \in asm : SatAsg(a, {l})}
SatSound      == status = "Sat" => [v \in Vars |-> v \in Assigned] \in AsmModels
UnsatSound    == status = "Unsat" => AsmModels = {}
(* a model found by the search is the ONLY model of F that agrees with its decisions: everything  *)
(* else on the trail was propagated.  This is what makes "block the decisions" in Enumerate and   *)
(* CountModels remove exactly the model just found (C05).                                         *)
Decisions == {trail[i].lit : i \in {j \in 1..Len(trail) : trail[j].reason \in {NONE, ASM}}}
DecisionsDetermineModel ==
  status = "Sat" => {a \in ModelsOf(F) : \A l \in Decisions : SatAsg(a, {l})} = {[v \in Vars |-> v \in Assigned]}
LearnEntailed == \A c \in L : \A a \in ModelsOf(F) : SatAsg(a, c)
ConflEntailed == confl # NONE => (\A a \in ModelsOf(F) : SatAsg(a, confl)) /\ (\A l \in confl : IsFalse(l))

(* ---- certificate (C06) --------------------------------------------------- *)
(* A learned clause is emitted at Backjump, the empty clause at Fail.  Each emitted line is   *)
(* RUP w.r.t. the input and the learned clauses the solver holds at that moment; since the    *)
(* checker holds all earlier lines (a superset), the whole certificate is a RUP derivation,    *)
(* also across Forget and Restart.                                                             *)
CertStep == /\ (confl # NONE /\ confl' = NONE /\ L' # L) => RUP(DB, confl)
            /\ (status = "Indet" /\ status' = "Unsat") => RUP(DB \cup {{a} : a \in asm}, {})
CertRUP == [][CertStep]_vars

(* ---- liveness: the search terminates (never Indet for ever) --------------- *)
Fairness == WF_vars(Propagate \/ Conflict \/ Decide \/ Explain \/ Minimise \/ Backjump \/ Fail \/ Succeed)
LiveSpec == Spec /\ Fairness
Terminates == <>(status # "Indet" \/ nlearn = MaxLearn)
=============================================================================
