------------------------------- MODULE Optimize -------------------------------
(***************************************************************************)
(* The linear-search optimisation loop of solver.Optimal / solver.Minimize  *)
(* (property C03, stream part of C20) over an abstract oracle.              *)
(*                                                                          *)
(* The problem is abstracted to its set of models M0 over N variables (any  *)
(* subset of the assignments: every constraint set has one) and a cost      *)
(* function  cost(a) = Sum{w[v] : a[v]}  (cost literals positive w.l.o.g.). *)
(*                                                                          *)
(*   Improve(m)   the solver returns ANY model m of the current conjunction *)
(*                (search order is free); it is streamed with its cost      *)
(*   Strengthen   the constraint  Sum w[v]*not(v) >= maxCost - cost + 1     *)
(*                with maxCost = Sum w  is appended (AppendClause); it is   *)
(*                meant to say  cost(a) <= cost - 1                         *)
(*   Stop         the conjunction has no model left, or the cost is 0       *)
(*                                                                          *)
(* Checked in every state: the bound constraint means what it is meant to   *)
(* mean (BoundExact); streamed costs strictly decrease; every streamed      *)
(* model is a model of the problem with its true cost; at the end the last  *)
(* streamed cost is the minimum over M0, and Unsat is answered iff M0 is    *)
(* empty.  With a negative weight allowed (NegWeights = TRUE: an OPB objective with  *)
(* a negative coefficient, open known finding) Optimal is violated.         *)
(***************************************************************************)
EXTENDS Integers, FiniteSets, Sequences, TLC, Json, CSV, IOUtils

CONSTANTS N, W, NegWeights   \* NegWeights = TRUE: weights may be -1 (configuration files cannot hold negative numbers)
MinW == IF NegWeights THEN -1 ELSE 0
Vars == 1..N
Asg == [Vars -> BOOLEAN]
VARIABLES M0, w, M, stream, phase
vars == <<M0, w, M, stream, phase>>

RECURSIVE CostTo(_, _, _)
CostTo(a, ww, v) == IF v = 0 THEN 0 ELSE CostTo(a, ww, v - 1) + (IF a[v] THEN ww[v] ELSE 0)
Cost(a) == CostTo(a, w, N)
RECURSIVE SumW(_, _)
SumW(ww, v) == IF v = 0 THEN 0 ELSE SumW(ww, v - 1) + ww[v]
MaxCost == SumW(w, N)
(* the constraint the code appends after a model of cost k *)
RECURSIVE NegTo(_, _)
NegTo(a, v) == IF v = 0 THEN 0 ELSE NegTo(a, v - 1) + (IF ~a[v] THEN w[v] ELSE 0)
Bound(a, k) == NegTo(a, N) >= MaxCost - k + 1

Init == /\ M0 \in SUBSET Asg /\ w \in [Vars -> MinW..W]
        /\ M = M0 /\ stream = <<>> /\ phase = "solve"
Last == stream[Len(stream)]
Improve == /\ phase = "solve" /\ M # {}
           /\ \E m \in M : stream' = Append(stream, [model |-> m, cost |-> Cost(m)])
           /\ phase' = "found" /\ UNCHANGED <<M0, w, M>>
Strengthen == /\ phase = "found" /\ Last.cost # 0
              /\ M' = {m \in M : Bound(m, Last.cost)}
              /\ phase' = "solve" /\ UNCHANGED <<M0, w, stream>>
Stop == /\ \/ (phase = "solve" /\ M = {})
           \/ (phase = "found" /\ Last.cost = 0)
        /\ phase' = "done" /\ UNCHANGED <<M0, w, M, stream>>
Next == Improve \/ Strengthen \/ Stop
Spec == Init /\ [][Next]_vars

BoundExact == \A a \in Asg : \A k \in 0..(N * W) : Bound(a, k) <=> (Cost(a) <= k - 1)
Decreasing == \A i \in 1..(Len(stream) - 1) : stream[i + 1].cost < stream[i].cost
StreamValid == \A i \in 1..Len(stream) : stream[i].model \in M0 /\ stream[i].cost = Cost(stream[i].model)
Optimal == phase = "done" =>
              /\ (stream = <<>>) <=> (M0 = {})
              /\ stream # <<>> => \A m \in M0 : Cost(m) >= Last.cost
Terminates == <>(phase = "done")

(* ---- spec -> code: every initial state (model set, weights) becomes a problem -------------------- *)
(* the CNF whose models are exactly M0: one clause per excluded assignment                            *)
SetToSeq(S) == LET RECURSIVE Go(_)
                   Go(T) == IF T = {} THEN <<>> ELSE LET x == CHOOSE x \in T : TRUE IN <<x>> \o Go(T \ {x})
               IN Go(S)
Excluding(a) == [v \in Vars |-> IF a[v] THEN -v ELSE v]
EmitFile == IF "VERIF_EMIT" \in DOMAIN IOEnv THEN IOEnv.VERIF_EMIT ELSE "optimize_emit.ndjson"
EmitInit == (phase = "solve" /\ stream = <<>>) =>
              CSVWrite("%1$s", <<ToJson([n |-> N, clauses |-> SetToSeq({Excluding(a) : a \in Asg \ M0}),
                                         w |-> [v \in Vars |-> w[v]]])>>, EmitFile)
=============================================================================
