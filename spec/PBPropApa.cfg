CONSTANTS MaxW = 1000000
INIT Init
NEXT Next
INVARIANT AllInv
