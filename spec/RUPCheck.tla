------------------------------ MODULE RUPCheck ------------------------------
(***************************************************************************)
(* The certificate checker of explain/check.go (property C08, and the       *)
(* soundness argument behind C06) as a state machine:                       *)
(*                                                                          *)
(*   Line     take the next line c of the certificate; assert the negation  *)
(*            of each literal of c on top of the unit clauses of the        *)
(*            problem; run unit propagation to fixpoint over the problem    *)
(*            clauses and the lines accepted so far;                        *)
(*              conflict     -> the line is accepted and appended           *)
(*              no conflict  -> the certificate is rejected                 *)
(*   Finish   all lines consumed: valid; the learned lines are dropped      *)
(*            again (restore): the problem is as it was                     *)
(*                                                                          *)
(* Theorems checked by TLC for every problem F (at most MaxF clauses) and   *)
(* every certificate (at most MaxC lines) over N variables:                 *)
(*   Sound      valid  => every line is entailed by F (hence a valid        *)
(*              certificate containing the empty clause proves F unsat)     *)
(*   Complete   every line RUP  => valid                                    *)
(*   Restored   after the check the problem equals the original             *)
(*   TaggedUnsat  when a refutation was accepted, the clauses of F that     *)
(*              took part in some propagation (tagged) are unsatisfiable    *)
(*              by themselves: this is UnsatSubset                           *)
(***************************************************************************)
EXTENDS Logic, TLC, Json, CSV, IOUtils

CONSTANTS N, MaxF, MaxC
ClauseUniv == {<<>>, <<1>>, <<-1>>, <<2>>, <<-2>>, <<1, 2>>, <<-1, 2>>, <<1, -2>>, <<-1, -2>>}
Problems == UNION {[1..k -> ClauseUniv \ {<<>>}] : k \in 0..MaxF}
Certs == UNION {[1..k -> ClauseUniv] : k \in 0..MaxC}

VARIABLES F, cert, i, db, tagged, verdict
vars == <<F, cert, i, db, tagged, verdict>>

Init == /\ F \in Problems /\ cert \in Certs
        /\ i = 1 /\ db = F /\ tagged = {} /\ verdict = "checking"

(* naive propagation to fixpoint; returns [conflict, used] where used = indices of db clauses that *)
(* became unit or falsified (the checker tags those among the original clauses)                    *)
RECURSIVE Prop(_, _, _)
Prop(D, sigma, used) ==
  IF \E j \in 1..Len(D) : \A l \in Range(D[j]) : -l \in sigma
  THEN [conflict |-> TRUE, used |-> used \cup {CHOOSE j \in 1..Len(D) : \A l \in Range(D[j]) : -l \in sigma}]
  ELSE LET U == {j \in 1..Len(D) : (\A l \in Range(D[j]) : l \notin sigma)
                                   /\ Cardinality({l \in Range(D[j]) : -l \notin sigma}) = 1}
       IN IF U = {} THEN [conflict |-> FALSE, used |-> used]
          ELSE LET j == CHOOSE j \in U : TRUE
                   l == CHOOSE l \in Range(D[j]) : -l \notin sigma
               IN Prop(D, sigma \cup {l}, used \cup {j})

Line == /\ verdict = "checking" /\ i <= Len(cert)
        /\ LET c == cert[i]
               taut == \E l \in Range(c) : -l \in Range(c)
               r == Prop(db, {-l : l \in Range(c)}, {})
           IN IF taut \/ r.conflict
              THEN /\ db' = Append(db, c) /\ i' = i + 1 /\ UNCHANGED verdict
                   /\ tagged' = tagged \cup (IF taut THEN {} ELSE {j \in r.used : j <= Len(F)})
              ELSE /\ verdict' = "invalid" /\ UNCHANGED <<db, i, tagged>>
        /\ UNCHANGED <<F, cert>>

Finish == /\ verdict = "checking" /\ i > Len(cert)
          /\ verdict' = "valid" /\ db' = SubSeq(db, 1, Len(F))      \* restore
          /\ UNCHANGED <<F, cert, i, tagged>>

Next == Line \/ Finish
Spec == Init /\ [][Next]_vars

M == ClauseModels(N, F)
F0 == {Range(F[j]) : j \in 1..Len(F)}
Sound == verdict = "valid" => \A k \in 1..Len(cert) : EntailsCl(M, cert[k])
Complete == (verdict = "invalid") => FirstNonRUP(F0, cert) # 0
Restored == verdict = "valid" => db = F
AcceptedEntailed == \A k \in (Len(F) + 1)..Len(db) : EntailsCl(M, db[k])
(* the machine's own propagation agrees with Logic!RUP on every prefix it accepted *)
TaggedSeq == [k \in 1..Cardinality(tagged) |-> F[CHOOSE j \in tagged : Cardinality({x \in tagged : x < j}) = k - 1]]
TaggedUnsat == (verdict = "valid" /\ \E k \in 1..Len(cert) : cert[k] = <<>>) => ClauseModels(N, TaggedSeq) = {}

EmitFile == IF "VERIF_EMIT" \in DOMAIN IOEnv THEN IOEnv.VERIF_EMIT ELSE "rup_emit.ndjson"
EmitPair == (i = 1 /\ verdict = "checking") => CSVWrite("%1$s", <<ToJson([n |-> N, F |-> F, cert |-> cert])>>, EmitFile)
=============================================================================
