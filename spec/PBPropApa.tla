------------------------------ MODULE PBPropApa ------------------------------
(***************************************************************************)
(* The slack rule of PBProp.tla for SYMBOLIC weights (Apalache): four       *)
(* literals, every weight any integer in 1..MaxW and every degree in        *)
(* 1..4*MaxW+1 (MaxW = 1 000 000), every partial assignment.  TLC           *)
(* enumerates weights up to 3; here the SMT solver decides the same         *)
(* theorems for all weights in the range at once.  The propagation loop of  *)
(* the code (solver/watcher.go simplifyPseudoBool) is the transition        *)
(* relation: each round assigns at least one of the four variables or       *)
(* stops, so every run has stopped after five rounds.                       *)
(***************************************************************************)
EXTENDS Integers, FiniteSets

CONSTANT
  \* @type: Int;
  MaxW

VARIABLES
  \* @type: Int -> Int;
  w,
  \* @type: Int;
  d,
  \* @type: Int -> Int;
  sigma,
  \* @type: Int -> Int;
  sg,
  \* @type: Set(Int);
  acc,
  \* @type: Bool;
  stop,
  \* @type: Bool;
  confl

Vars == 1..4

\* @type: (Int -> Int, Int -> Bool) => Int;
SumTrue(ww, a) == (IF a[1] THEN ww[1] ELSE 0) + (IF a[2] THEN ww[2] ELSE 0) + (IF a[3] THEN ww[3] ELSE 0) + (IF a[4] THEN ww[4] ELSE 0)
\* @type: (Int -> Int, Int -> Int) => Int;
SumNotFalse(ww, s) == (IF s[1] # -1 THEN ww[1] ELSE 0) + (IF s[2] # -1 THEN ww[2] ELSE 0) + (IF s[3] # -1 THEN ww[3] ELSE 0) + (IF s[4] # -1 THEN ww[4] ELSE 0)
\* @type: (Int -> Int, Int -> Int) => Int;
SumIsTrue(ww, s) == (IF s[1] = 1 THEN ww[1] ELSE 0) + (IF s[2] = 1 THEN ww[2] ELSE 0) + (IF s[3] = 1 THEN ww[3] ELSE 0) + (IF s[4] = 1 THEN ww[4] ELSE 0)

Init == /\ w \in [Vars -> Int] /\ \A v \in Vars : w[v] >= 1 /\ w[v] <= MaxW
        /\ d \in Int /\ d >= 1 /\ d <= 4 * MaxW + 1
        /\ sigma \in [Vars -> {-1, 0, 1}]
        /\ sg = sigma /\ acc = {} /\ stop = FALSE /\ confl = FALSE

\* @type: (Int -> Int) => Bool;
AlreadySat(s) == SumIsTrue(w, s) >= d

Next ==
  /\ UNCHANGED <<w, d, sigma>>
  /\ IF stop THEN UNCHANGED <<sg, acc, stop, confl>>
     ELSE IF AlreadySat(sg) THEN stop' = TRUE /\ UNCHANGED <<sg, acc, confl>>
     ELSE LET sl == SumNotFalse(w, sg) - d IN
          IF sl < 0 THEN stop' = TRUE /\ confl' = TRUE /\ UNCHANGED <<sg, acc>>
          ELSE IF sl = 0 THEN /\ stop' = TRUE /\ acc' = acc \union {v \in Vars : sg[v] = 0}
                              /\ UNCHANGED <<sg, confl>>
          ELSE LET new == {v \in Vars : sg[v] = 0 /\ w[v] > sl} IN
               IF new = {} THEN stop' = TRUE /\ UNCHANGED <<sg, acc, confl>>
               ELSE /\ sg' = [v \in Vars |-> IF v \in new THEN 1 ELSE sg[v]]
                    /\ acc' = acc \union new /\ UNCHANGED <<stop, confl>>

\* @type: (Bool, Bool, Bool, Bool) => (Int -> Bool);
Asg(b1, b2, b3, b4) == [v \in Vars |-> IF v = 1 THEN b1 ELSE IF v = 2 THEN b2 ELSE IF v = 3 THEN b3 ELSE b4]
\* @type: (Int -> Bool) => Bool;
Completes(a) == \A v \in Vars : (sigma[v] = 1 => a[v]) /\ (sigma[v] = -1 => ~a[v])
Refuted == \A b1, b2, b3, b4 \in BOOLEAN : Completes(Asg(b1, b2, b3, b4)) => SumTrue(w, Asg(b1, b2, b3, b4)) < d
\* @type: Int => Bool;
ImpliedV(v) == sigma[v] = 0 /\ \A b1, b2, b3, b4 \in BOOLEAN :
                 (Completes(Asg(b1, b2, b3, b4)) /\ SumTrue(w, Asg(b1, b2, b3, b4)) >= d) => Asg(b1, b2, b3, b4)[v]

ConflictExact == stop => (confl <=> (Refuted /\ ~AlreadySat(sigma)))
Sound == (stop /\ ~confl) => \A v \in acc : ImpliedV(v)
Complete == (stop /\ ~confl /\ ~AlreadySat(sigma)) => \A v \in Vars : ImpliedV(v) => v \in acc
(* what is propagated on the way is implied too (the loop never assigns a literal wrongly) *)
SoundOnTheWay == ~confl => \A v \in acc : ImpliedV(v)
AllInv == ConflictExact /\ Sound /\ Complete /\ SoundOnTheWay
=============================================================================
