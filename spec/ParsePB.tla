------------------------------- MODULE ParsePB -------------------------------
(***************************************************************************)
(* Parse-time handling of pseudo-boolean constraints (solver/parser_pb.go   *)
(* ParsePBConstrs, solver/problem.go simplifyPB, addUnit; properties C02,   *)
(* C13 for OPB files): the PB counterpart of Simplify.tla.                  *)
(*                                                                          *)
(*   Classify   each constraint as it is read: required sum <= 0: dropped;  *)
(*              total weight < required: the problem is Unsat; total weight *)
(*              = required: every literal becomes a unit; otherwise kept    *)
(*   Units      the units are written into the model; two opposite units    *)
(*              make the problem Unsat                                      *)
(*   Lit        simplifyPB, inner loop, one literal of one kept constraint: *)
(*              unassigned and indispensable (wSum - w < card): it becomes  *)
(*              a unit and is removed (card and wSum drop by w); assigned:  *)
(*              it is removed (true: card drops by w); removal moves the    *)
(*              LAST term into the hole                                     *)
(*   EndC       end of a constraint: card <= 0: it is removed (the last     *)
(*              constraint takes its place); wSum < card: Unsat             *)
(*   EndPass    a pass that modified anything is followed by another one    *)
(*              (Repass = "fixpoint", the code); Repass = "once" stops      *)
(*              after the first pass (a mutation: Fixpoint must then fail)  *)
(*                                                                          *)
(* Initial states: every sequence of at most L constraints over NV          *)
(* variables with at most MaxK terms and weights 1..W.  Each is written out *)
(* and given to the real front end (ParsePBConstrs through the constraint   *)
(* constructors, and as an OPB text), then counted and solved.              *)
(***************************************************************************)
EXTENDS Logic, TLC, Json, CSV, IOUtils

CONSTANTS NV, W, MaxK, L, Repass

Vars == 1..NV
Lits == {v : v \in Vars} \cup {-v : v \in Vars}
DistinctVars(ls) == \A a, b \in 1..Len(ls) : a # b => Abs(ls[a]) # Abs(ls[b])
SumSeq(s) == LET RECURSIVE Go(_)
                 Go(k) == IF k = 0 THEN 0 ELSE s[k] + Go(k - 1)
             IN Go(Len(s))
(* weights are given in non-increasing order (the constructor sorts the terms anyway) *)
Universe == UNION {{[lits |-> ls, w |-> w, d |-> d] :
                      ls \in {x \in [1..k -> Lits] : DistinctVars(x)},
                      w \in {y \in [1..k -> 1..W] : \A a \in 1..(k - 1) : y[a] >= y[a + 1]},
                      d \in 1..(k * W)} : k \in 1..MaxK}
Inputs == UNION {[1..n -> {c \in Universe : c.d <= SumSeq(c.w) + 1}] : n \in 1..L}

VARIABLES input,    \* the constraints as written
          cs,       \* the constraints kept: [lits, w, card]
          model,    \* Vars -> -1 / 0 / 1
          status,   \* "Indet", "Sat", "Unsat"
          i, j, card, wSum, modified, pc
vars == <<input, cs, model, status, i, j, card, wSum, modified, pc>>

Init == /\ input \in Inputs
        /\ cs = <<>> /\ model = [v \in Vars |-> 0] /\ status = "Indet"
        /\ i = 1 /\ j = 1 /\ card = 0 /\ wSum = 0 /\ modified = FALSE /\ pc = "classify"

ValOf(l) == IF l > 0 THEN 1 ELSE -1
(* ParsePBConstrs: the loop over the constraints, then the units written into the model *)
Classify ==
  /\ pc = "classify"
  /\ LET RECURSIVE Go(_, _, _)
         Go(k, kept, units) ==
           IF k > Len(input) THEN [kept |-> kept, units |-> units, unsat |-> FALSE]
           ELSE LET c == input[k]  sumW == SumSeq(c.w) IN
                IF sumW < c.d THEN [kept |-> kept, units |-> units, unsat |-> TRUE]
                ELSE IF sumW = c.d THEN Go(k + 1, kept, units \cup Range(c.lits))
                ELSE Go(k + 1, Append(kept, [lits |-> c.lits, w |-> c.w, card |-> c.d]), units)
         r == Go(1, <<>>, {})
     IN IF r.unsat \/ (\E l \in r.units : -l \in r.units)
        THEN /\ status' = "Unsat" /\ pc' = "done" /\ cs' = <<>> /\ UNCHANGED model
        ELSE /\ model' = [v \in Vars |-> IF v \in r.units THEN 1 ELSE IF -v \in r.units THEN -1 ELSE 0]
             /\ cs' = r.kept /\ pc' = "pass" /\ UNCHANGED status
  /\ UNCHANGED <<input, i, j, card, wSum, modified>>

(* start of a pass / of a constraint *)
StartPass == /\ pc = "pass"
             /\ i' = 1 /\ modified' = FALSE /\ pc' = "startc"
             /\ UNCHANGED <<input, cs, model, status, j, card, wSum>>
StartC == /\ pc = "startc"
          /\ IF i > Len(cs) THEN pc' = "endpass" /\ UNCHANGED <<j, card, wSum>>
             ELSE /\ j' = 1 /\ card' = cs[i].card /\ wSum' = SumSeq(cs[i].w) /\ pc' = "lit"
          /\ UNCHANGED <<input, cs, model, status, i, modified>>

RemoveAt(s, idx) == IF idx = Len(s) THEN SubSeq(s, 1, Len(s) - 1)
                    ELSE [a \in 1..(Len(s) - 1) |-> IF a = idx THEN s[Len(s)] ELSE s[a]]
Clamp(c, w) == IF w >= c THEN 1 ELSE c - w          \* updateCardinality(-w) on the stored cardinality
SetC(k, c) == [cs EXCEPT ![k] = c]

Lit == /\ pc = "lit"
       /\ IF j > Len(cs[i].lits) THEN pc' = "endc" /\ UNCHANGED <<cs, model, status, j, card, wSum, modified>>
          ELSE LET c == cs[i]  l == c.lits[j]  w == c.w[j]  v == Abs(l)
                   dropped == [lits |-> RemoveAt(c.lits, j), w |-> RemoveAt(c.w, j), card |-> c.card]
               IN IF model[v] = 0
                  THEN IF wSum - w < card        \* indispensable: a unit
                       THEN /\ model' = [model EXCEPT ![v] = ValOf(l)]
                            /\ cs' = SetC(i, [dropped EXCEPT !.card = Clamp(c.card, w)])
                            /\ card' = card - w /\ wSum' = wSum - w /\ modified' = TRUE
                            /\ UNCHANGED <<status, j, pc>>
                       ELSE j' = j + 1 /\ UNCHANGED <<cs, model, status, card, wSum, modified, pc>>
                  ELSE /\ wSum' = wSum - w
                       /\ IF model[v] = ValOf(l)
                          THEN card' = card - w /\ cs' = SetC(i, [dropped EXCEPT !.card = Clamp(c.card, w)])
                          ELSE card' = card /\ cs' = SetC(i, dropped)
                       /\ modified' = TRUE /\ UNCHANGED <<model, status, j, pc>>
       /\ UNCHANGED <<input, i>>

EndC == /\ pc = "endc"
        /\ IF card <= 0
           THEN /\ cs' = RemoveAt(cs, i) /\ modified' = TRUE /\ pc' = "startc" /\ UNCHANGED <<status, i>>
           ELSE IF wSum < card
           THEN /\ cs' = <<>> /\ status' = "Unsat" /\ pc' = "done" /\ UNCHANGED <<i, modified>>
           ELSE /\ i' = i + 1 /\ pc' = "startc" /\ UNCHANGED <<cs, status, modified>>
        /\ UNCHANGED <<input, model, j, card, wSum>>

EndPass == /\ pc = "endpass"
           /\ IF modified /\ Repass = "fixpoint" THEN pc' = "pass" /\ UNCHANGED status
              ELSE /\ pc' = "done"
                   /\ status' = IF status = "Indet" /\ cs = <<>> THEN "Sat" ELSE status
           /\ UNCHANGED <<input, cs, model, i, j, card, wSum, modified>>

Next == Classify \/ StartPass \/ StartC \/ Lit \/ EndC \/ EndPass
Spec == Init /\ [][Next]_vars

(* ---- what must hold when the problem is handed to the solver ------------------------------------- *)
AsCon(c) == [lits |-> c.lits, w |-> c.w, rel |-> ">=", rhs |-> c.d]
M0 == {a \in Assignments(NV) : \A k \in 1..Len(input) : SatC(a, AsCon(input[k]))}
Residual(c) == [lits |-> c.lits, w |-> c.w, rel |-> ">=", rhs |-> c.card]
Parsed == IF status = "Unsat" THEN {}
          ELSE {a \in Assignments(NV) : /\ \A v \in Vars : model[v] # 0 => (a[v] = (model[v] = 1))
                                        /\ \A k \in 1..Len(cs) : SatC(a, Residual(cs[k]))}
ModelsPreserved == pc = "done" => Parsed = M0
(* nothing left to simplify: no assigned variable, no indispensable literal, no constraint that is  *)
(* already satisfied or cannot be satisfied                                                          *)
Fixpoint == (pc = "done" /\ status # "Unsat") =>
              \A k \in 1..Len(cs) :
                 /\ \A x \in 1..Len(cs[k].lits) : model[Abs(cs[k].lits[x])] = 0
                 /\ \A x \in 1..Len(cs[k].lits) : SumSeq(cs[k].w) - cs[k].w[x] >= cs[k].card
                 /\ cs[k].card >= 1 /\ SumSeq(cs[k].w) > cs[k].card
StatusSat == (pc = "done" /\ status = "Sat") => cs = <<>>
Terminates == <>(pc = "done")

EmitFile == IF "VERIF_EMIT" \in DOMAIN IOEnv THEN IOEnv.VERIF_EMIT ELSE "parsepb_emit.ndjson"
EmitInit == pc = "classify" => CSVWrite("%1$s", <<ToJson([n |-> NV, cons |-> input])>>, EmitFile)
=============================================================================
