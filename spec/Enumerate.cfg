SPECIFICATION SpecE
CONSTANTS
  N = 3
  K = 2
  MaxLen = 2
  MaxLearn = 3
  MaxRestart = 1
INVARIANTS TrailConsistent ReasonForces LearnEntailed NoDuplicate Sound Complete BlockedOnly
CHECK_DEADLOCK FALSE
