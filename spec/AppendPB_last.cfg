SPECIFICATION Spec
CONSTANTS
  NV = 3
  W = 3
  MaxK = 3
  UnitRule = "last"
INVARIANTS OutcomeCorrect
CHECK_DEADLOCK FALSE
