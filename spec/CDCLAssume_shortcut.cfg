SPECIFICATION Spec
CONSTANTS
  A = 1
  Shortcut = TRUE
  FixedF = "chain"
  N = 5
  K = 4
  MaxLen = 3
  MaxLearn = 2
  MaxRestart = 0
INVARIANTS LearnEntailed
CHECK_DEADLOCK FALSE
