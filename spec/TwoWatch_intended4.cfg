SPECIFICATION Spec
CONSTANTS
  K = 4
  Scheme = "highest"
INVARIANT Complete
CHECK_DEADLOCK FALSE
