SPECIFICATION Spec
CONSTANTS
  MaxM = 2
  MaxCap = 1
INVARIANTS NoPanic PrefixOK NotClosedEarly AtEnd NoDeadlock EmitSched
CHECK_DEADLOCK FALSE
