SPECIFICATION Spec
INVARIANT Emit
CHECK_DEADLOCK FALSE
