------------------------------ MODULE APITrace ------------------------------
(***************************************************************************)
(* Code -> spec: black-box validation of recorded call histories of a      *)
(* solver object against SolverAPI (the meaning of each public call).      *)
(*                                                                         *)
(* Input: NDJSON file named by the environment variable VERIF_TRACE, one   *)
(* case per line:                                                          *)
(*   [id, n, strict, cons, hasObj, obj, ev]                                *)
(* n = declared variable count, strict = the front end declares n (model   *)
(* length must be exactly n), cons = constraints as the caller wrote them, *)
(* obj = [lits, w] cost function, ev = the recorded calls with replies.    *)
(*                                                                         *)
(* The specification is total: a reply the contract does not allow never   *)
(* disables the trace, it appends <<case id, event index, clause>> to      *)
(* `bad`, applies the state update of the call and goes on.  Output: JSON  *)
(* file named by VERIF_OUT, written when the last case has been consumed.  *)
(***************************************************************************)
EXTENDS Logic, TLC, Json, IOUtils

Cases == ndJsonDeserialize(IOEnv.VERIF_TRACE)
OutFile == IOEnv.VERIF_OUT

VARIABLES ci,     \* index of the current case
          ei,     \* index of the next event of the current case
          n,      \* declared variables so far
          mods,   \* models of everything added so far, over 1..n
          asm,    \* current assumptions (sequence of literals)
          pn,     \* number of variables the parsed problem reports (from the "dump" event)
          tsv,    \* assignment of the solver as rebuilt from the white-box events (see WbFold)
          bad,    \* rejected steps
          nev     \* events consumed (for the acceptance count)
vars == <<ci, ei, n, mods, asm, pn, tsv, bad, nev>>

Case == Cases[ci]
Ev == Case.ev[ei]

ToFn(m) == [v \in 1..Len(m) |-> m[v]]
UnderAsm == {m \in mods : SatLits(m, asm)}
(* completions of a (possibly shorter) reported model over the declared variables *)
Completions(m) == {a \in Assignments(n) : \A v \in 1..Len(m) : a[v] = m[v]}
LenOK(m) == IF Case.strict THEN Len(m) = n ELSE Len(m) <= n
Obj == Case.obj

DumpModels(d) ==
  IF d.status = "UNSAT" THEN {}
  ELSE {a \in Assignments(d.n) : /\ SatLits(a, d.units)
                                 /\ \A i \in 1..Len(d.cons) : SatC(a, NormC(d.cons[i]))}

(* ---- the contract of each call: "" = allowed, otherwise the clause that failed *)
ModelWhy(m, S) == IF ~LenOK(m) THEN "model-length"
                  ELSE IF ~(Completions(m) \subseteq S) THEN "model"
                  ELSE ""

(* certificate of a CNF case (C06): every line a consequence, the sequence a RUP derivation,  *)
(* and on Unsat the empty clause derivable by unit propagation at the end                      *)
Mech(w) == w \in {"mech:assigned-twice", "mech:reason-without-literal",
                 "mech:propagation-not-forced", "mech:conflict-not-falsified"}
F0 == {Range(Case.cons[i].lits) : i \in 1..Len(Case.cons)}
CertWhy(e) ==
  IF ~e.certOn THEN ""
  ELSE IF \E i \in 1..Len(e.cert) : \E j \in 1..Len(e.cert[i]) : e.cert[i][j] = 0 THEN "cert-malformed-line"
  ELSE IF \E i \in 1..Len(e.cert) : ~EntailsCl(mods, e.cert[i]) THEN "cert-line-not-entailed"
  ELSE IF FirstNonRUP(F0, e.cert) # 0 THEN "cert-line-not-rup"
  ELSE IF e.status = "UNSAT" /\ ~RUP(F0 \cup {Range(e.cert[i]) : i \in 1..Len(e.cert)}, {})
       THEN "cert-no-refutation"
  ELSE ""

(* mechanism conformance (CDCL.tla: the line emitted at Backjump IS the learned clause): every    *)
(* non-empty certificate line is, as a set of literals, one of the clauses the hook reported as   *)
(* learned during this call.  Diagnostic only.                                                    *)
LearnedSets(e) == {Range(e.wb[i].lits) : i \in {j \in 1..Len(e.wb) : e.wb[j].k = "learn"}}
CertMechWhy(e) ==
  IF e.certOn /\ Len(e.wb) > 0 /\ \E i \in 1..Len(e.cert) : e.cert[i] # <<>> /\ Range(e.cert[i]) \notin LearnedSets(e)
  THEN "diag:cert-line-not-a-learned-clause" ELSE ""

SolveWhy(e) ==
  IF e.status \notin {"SAT", "UNSAT"} THEN "indet"
  ELSE IF (e.status = "SAT") # (UnderAsm # {}) THEN "verdict"
  ELSE IF e.status = "SAT" /\ ModelWhy(e.model, UnderAsm) # "" THEN ModelWhy(e.model, UnderAsm)
  ELSE CertWhy(e)

AssumeWhy(e) ==
  IF e.status = "UNSAT" /\ {m \in mods : SatLits(m, e.ls)} # {} THEN "assume-early-unsat" ELSE ""

(* Counting and enumeration are over the declared variables.  A front end that declares the  *)
(* variable count (strict) is held to it.  The constraint front ends declare nothing: there  *)
(* the parsed problem may leave out the highest variables if and only if they are free in     *)
(* the constraints as written (zero coefficient, trivially true constraint), i.e. the model   *)
(* set is a cylinder over them; counting is then over the variables the problem reports.      *)
DN == IF Case.strict THEN n ELSE Min2(pn, n)
EM == Project(mods, DN)
Cylinder == Extend(EM, DN, n) = mods

CountWhy(e) == IF ~Cylinder THEN "declared-variable-lost"
               ELSE IF e.k # Cardinality(EM) THEN "count" ELSE ""

EnumWhy(e) ==
  LET ms == e.models
      S == {ToFn(ms[i]) : i \in 1..Len(ms)}
  IN IF ~Cylinder THEN "declared-variable-lost"
     ELSE IF e.ret # Cardinality(EM) THEN "enum-return"
     ELSE IF e.chan /\ ~e.closed THEN "enum-not-closed"
     ELSE IF e.chan /\ Cardinality(S) # Len(ms) THEN "enum-duplicate"
     ELSE IF e.chan /\ \E i \in 1..Len(ms) : Len(ms[i]) # DN THEN "enum-model-length"
     ELSE IF e.chan /\ ~(S \subseteq EM) THEN "enum-non-model"
     ELSE IF e.chan /\ S # EM THEN "enum-missing"
     ELSE ""

CostOf(m) == IF Case.hasObj THEN Cost(m, Obj) ELSE 0
Best == IF Case.hasObj THEN MinCost(mods, Obj) ELSE 0

(* one optimisation result [status, model, cost] against the meaning *)
ResWhy(r, final) ==
  IF r.status \notin {"SAT", "UNSAT"} THEN "opt-indet"
  ELSE IF (r.status = "UNSAT") # (mods = {}) THEN "opt-verdict"
  ELSE IF r.status = "UNSAT" THEN ""
  ELSE IF ModelWhy(r.model, mods) # "" THEN "opt-" \o ModelWhy(r.model, mods)
  ELSE IF \E a \in Completions(r.model) : CostOf(a) # r.cost THEN "opt-cost-of-model"
  ELSE IF final /\ r.cost # Best THEN "opt-not-minimal"
  ELSE ""

StreamWhy(e) ==
  LET s == e.stream IN
  IF ~e.chan THEN ""
  ELSE IF ~e.closed THEN "stream-not-closed"
  ELSE IF Len(s) = 0 THEN "stream-empty"
  ELSE IF \E i \in 1..Len(s) : ResWhy(s[i], FALSE) # "" THEN "stream-invalid-result"
  ELSE IF \E i \in 1..Len(s) : s[i].late # s[i].model THEN "stream-result-modified-after-delivery"
  ELSE IF \E i \in 1..(Len(s) - 1) : s[i].status = "SAT" /\ s[i + 1].status = "SAT"
                                     /\ s[i + 1].cost >= s[i].cost THEN "stream-not-decreasing"
  ELSE IF s[Len(s)].status # e.status \/ (e.status = "SAT" /\ (s[Len(s)].cost # e.cost
                                          \/ s[Len(s)].model # e.model)) THEN "stream-last-differs"
  ELSE ""

OptimalWhy(e) == IF ResWhy(e, TRUE) # "" THEN ResWhy(e, TRUE) ELSE StreamWhy(e)

MinimizeWhy(e) ==
  IF (e.cost = -1) # (mods = {}) THEN "min-verdict"
  ELSE IF e.cost = -1 THEN ""
  ELSE IF e.cost # Best THEN "min-not-minimal"
  ELSE IF ~e.hasModel THEN "min-no-model"
  ELSE IF ModelWhy(e.model, mods) # "" THEN "min-" \o ModelWhy(e.model, mods)
  ELSE IF \E a \in Completions(e.model) : CostOf(a) # e.cost THEN "min-cost-of-model"
  ELSE ""

AmoWhy(e) ==
  IF e.after.n # e.before.n THEN "amo-nbvars"
  ELSE IF DumpModels(e.after) # DumpModels(e.before) THEN "amo-models"
  ELSE ""

(* diagnostic only: the parsed problem should have the models of the input (same n) *)
(* (Simplify post-condition, see CDCL.tla: the search relies on clauses that mention no variable  *)
(* fixed at parse time - a stale false literal in a watched position is never visited)           *)
Stale(d) == d.status # "UNSAT" /\ \E i \in 1..Len(d.cons) : \E j \in 1..Len(d.cons[i].lits) :
               \E u \in 1..Len(d.units) : Abs(d.units[u]) = Abs(d.cons[i].lits[j])
DumpWhy(e) == IF e.d.n = n /\ DumpModels(e.d) # mods
              THEN "diag:parse-dump:" \o ToString(CHOOSE m \in (DumpModels(e.d) \ mods) \cup (mods \ DumpModels(e.d)) : TRUE)
              ELSE IF Stale(e.d) THEN "diag:parse-stale" ELSE ""

(* ---- white-box events attached to a call (hooks in solver/, build tag verif) ------------ *)
(* Folded over the event list with the model set of "problem + everything appended so far"   *)
(* (AppendClause calls made by the optimisation loop and blocking clauses of enumeration     *)
(* strengthen it).  Every learned constraint must be a consequence of that set (C14, C06);   *)
(* deriving the empty constraint is allowed only if no model satisfies the assumptions.      *)
(* a blocking clause of one literal is reported as its literals only (no weights, no degree): it is a clause *)
WbC(e) == IF e.k = "block" /\ (e.d = 0 \/ Len(e.w) # Len(e.lits))
          THEN [lits |-> e.lits, w |-> Ones(Len(e.lits)), rel |-> ">=", rhs |-> 1]
          ELSE [lits |-> e.lits, w |-> e.w, rel |-> ">=", rhs |-> e.d]
(* sv: for each variable 0 if unassigned, +level if true, -level if false, rebuilt from the     *)
(* assign / prop / backtrack events (a tuple built with \o and Append: TLC evaluates those      *)
(* strictly, nested function constructors would be re-evaluated lazily at every use).           *)
(* This is the conformance of the recorded search with the mechanism model CDCL.tla:            *)
(*   assign / prop   the variable is unassigned (TrailConsistent)                               *)
(*   prop            the reason is a consequence of the problem and forces the literal under    *)
(*                   the current assignment: its coefficient exceeds the slack (ReasonForces)   *)
(*   conflict        the constraint is a consequence and has negative slack (ConflEntailed)     *)
(*   learn           the learned constraint is a consequence (LearnEntailed)                    *)
(*   block           a clause added at a non-zero level has its two highest-level literals in   *)
(*                   the watched positions 1 and 2 (TwoWatch.tla, Scheme = "highest")           *)
LitFalseS(sv, l) == IF l > 0 THEN sv[l] < 0 ELSE sv[-l] > 0
RECURSIVE SlackS(_, _, _)
SlackS(e, sv, i) == IF i = 0 THEN -e.d
                    ELSE SlackS(e, sv, i - 1) + (IF LitFalseS(sv, e.lits[i]) THEN 0 ELSE e.w[i])
CoefOf(e, l) == LET i == CHOOSE i \in 1..Len(e.lits) : e.lits[i] = l IN e.w[i]
InRange(e, k) == \A i \in 1..Len(e.lits) : e.lits[i] # 0 /\ Abs(e.lits[i]) <= k
WatchOrderOK(e, sv) ==
  Len(e.lits) < 3 \/ \A j \in 3..Len(e.lits) :
      /\ Abs(sv[Abs(e.lits[j])]) <= Abs(sv[Abs(e.lits[1])])
      /\ Abs(sv[Abs(e.lits[j])]) <= Abs(sv[Abs(e.lits[2])])
SetAt(sv, x, y) == SubSeq(sv, 1, x - 1) \o <<y>> \o SubSeq(sv, x + 1, Len(sv))
RECURSIVE CutFrom(_, _, _)
CutFrom(sv, L, i) == IF i > Len(sv) THEN <<>> ELSE <<IF Abs(sv[i]) > L THEN 0 ELSE sv[i]>> \o CutFrom(sv, L, i + 1)
CutAbove(sv, L) == CutFrom(sv, L, 1)
RECURSIVE Zeros(_)
Zeros(k) == IF k = 0 THEN <<>> ELSE Append(Zeros(k - 1), 0)
Signed(l, lvl) == IF l > 0 THEN lvl ELSE -lvl

(* Model sets filtered by appended constraints are evaluated at once (TLCEval: a tower of lazy       *)
(* filters would be re-evaluated at every use) and the fact clause below is applied, except in        *)
(* enumerations, where one blocking clause per model makes both too expensive for nothing (the       *)
(* facts asserted there are the blocking clauses themselves).                                        *)
Eager == Ev.op \notin {"count", "enum"}
(* the assumptions in force at position i of the events of a call: those of the latest "assume"      *)
(* event (calls of Assume are reported with the next call), the assumptions of the history otherwise *)
RECURSIVE WbAsm(_, _)
WbAsm(wb, i) == IF i = 0 THEN Range(asm) ELSE IF wb[i].k = "assume" THEN Range(wb[i].lits) ELSE WbAsm(wb, i - 1)
SatSet(m, S) == \A l \in S : LitTrue(m, l)
(* the fold returns [why, sv]: the first rejected clause ("" if none) and the assignment at the end *)
R(w, sv) == [why |-> w, sv |-> sv]
RECURSIVE WbFold(_, _, _, _, _)
WbFold(wb, i, M, k, sv) ==
  IF i > Len(wb) THEN R("", sv)
  ELSE LET e == wb[i] IN
       IF e.k \in {"append", "block"}
       THEN IF MaxVar(e.lits) > k THEN R("", sv)   \* variable set grows: handled by the black-box layer only
            ELSE IF e.k = "block" /\ ~WatchOrderOK(e, sv) THEN R("block-watch-order", sv)
            ELSE WbFold(wb, i + 1, IF Eager THEN TLCEval({m \in M : SatC(m, WbC(e))}) ELSE {m \in M : SatC(m, WbC(e))}, k, sv)
       ELSE IF e.k \in {"learn", "learn-pb"}
       THEN IF \A m \in M : SatC(m, WbC(e)) THEN WbFold(wb, i + 1, M, k, sv)
            ELSE R("learned-not-entailed:" \o ToString(CHOOSE m \in M : ~SatC(m, WbC(e))), sv)
       ELSE IF e.k = "learn-empty"
       THEN IF {m \in M : SatLits(m, asm)} = {} THEN WbFold(wb, i + 1, M, k, sv) ELSE R("derived-false-on-satisfiable", sv)
       ELSE IF e.k \in {"assign", "prop"} /\ Abs(e.lit) \in 1..k
       THEN IF sv[Abs(e.lit)] # 0 /\ sv[Abs(e.lit)] # Signed(e.lit, e.lvl)
            THEN R("mech:assigned-twice", sv)   \* (a repeated unit clause puts its literal on the trail twice: harmless, allowed)
            ELSE IF Eager /\ e.k = "assign" /\ e.lvl = 1 /\ sv[Abs(e.lit)] = 0 /\ e.lit \notin WbAsm(wb, i - 1)
                    /\ (\E m \in M : SatSet(m, WbAsm(wb, i - 1)) /\ ~LitTrue(m, e.lit))
                 (* a literal asserted at the top level that is not an assumption (a fact: a learned unit, a    *)
                 (* constraint found to be unit when it is added) holds in every model of what the solver was   *)
                 (* given so far that satisfies the assumptions in force                                        *)
                 THEN R("fact-not-entailed:" \o ToString(CHOOSE m \in M : SatSet(m, WbAsm(wb, i - 1)) /\ ~LitTrue(m, e.lit)), sv)
            ELSE IF e.k = "prop" /\ InRange(e, k) /\ ~(\E x \in 1..Len(e.lits) : e.lits[x] = e.lit) THEN R("mech:reason-without-literal", sv)
            ELSE IF e.k = "prop" /\ InRange(e, k) /\ sv[Abs(e.lit)] = 0 /\ CoefOf(e, e.lit) <= SlackS(e, sv, Len(e.lits))
                 THEN R("mech:propagation-not-forced", sv)
            ELSE WbFold(wb, i + 1, M, k, SetAt(sv, Abs(e.lit), Signed(e.lit, e.lvl)))
       ELSE IF e.k = "conflict" /\ InRange(e, k)
       THEN IF SlackS(e, sv, Len(e.lits)) >= 0 THEN R("mech:conflict-not-falsified", sv)
            ELSE WbFold(wb, i + 1, M, k, sv)
       ELSE IF e.k = "backtrack"
       THEN WbFold(wb, i + 1, M, k, CutAbove(sv, e.lvl))
       ELSE WbFold(wb, i + 1, M, k, sv)
(* the assignment persists from one call to the next (top-level facts survive); it is stretched when *)
(* appended constraints introduced new variables                                                   *)
Stretch(sv, k) == IF Len(sv) >= k THEN SubSeq(sv, 1, k) ELSE sv \o Zeros(k - Len(sv))
WbRes(e) == WbFold(e.wb, 1, mods, n, Stretch(tsv, n))
(* mechanism-level clauses are diagnostics (NOTE + amplification); only C06 / C14 promote the    *)
(* entailment of what is learned to a property clause (Case.wbStrict)                            *)
WbWhy(e) == LET w == WbRes(e).why IN
            IF w = "" THEN ""
            ELSE IF Case.wbStrict /\ w # "block-watch-order" /\ ~Mech(w) THEN w ELSE "diag:" \o w

First(a, b2) == IF a # "" THEN a ELSE b2

(* named deviation (open known finding): the optimisation loop assumes non-negative cost      *)
(* coefficients; an OPB objective with a negative coefficient gives wrong optima, panics or   *)
(* does not terminate                                                                         *)
KFNegObj == Case.hasObj /\ \E i \in 1..Len(Case.obj.w) : Case.obj.w[i] < 0
TagNeg(w) == IF w # "" /\ KFNegObj THEN "kf:negative-cost-coefficient:" \o w ELSE w

Why == CASE Ev.op = "solve"    -> First(First(SolveWhy(Ev), WbWhy(Ev)), CertMechWhy(Ev))
         [] Ev.op = "append"   -> ""
         [] Ev.op = "assume"   -> AssumeWhy(Ev)
         [] Ev.op = "count"    -> First(CountWhy(Ev), WbWhy(Ev))
         [] Ev.op = "enum"     -> First(EnumWhy(Ev), WbWhy(Ev))
         [] Ev.op = "optimal"  -> First(TagNeg(OptimalWhy(Ev)), WbWhy(Ev))
         [] Ev.op = "minimize" -> First(TagNeg(MinimizeWhy(Ev)), WbWhy(Ev))
         [] Ev.op = "amo"      -> AmoWhy(Ev)
         [] Ev.op = "dump"     -> DumpWhy(Ev)
         [] Ev.op = "skip"     -> ""     \* the driver refused the case: outside the precondition
         [] Ev.op = "crash"    -> TagNeg("crash")
         [] Ev.op = "timeout"  -> TagNeg("timeout")
         [] OTHER              -> "unknown-event"

(* ---- state update of each call ------------------------------------------ *)
NewN == IF Ev.op = "append" THEN Max2(n, MaxVar(Ev.c.lits)) ELSE n
NewMods == IF Ev.op = "append" THEN {m \in Extend(mods, n, NewN) : SatC(m, AsWritten(Ev.c))} ELSE mods
NewAsm == IF Ev.op = "assume" THEN Ev.ls ELSE asm
(* parse-time units are on the trail at level 1 before the first call *)
RECURSIVE UnitsSv(_, _, _)
UnitsSv(us, i, sv) == IF i > Len(us) THEN sv
                      ELSE IF Abs(us[i]) \in 1..Len(sv) THEN UnitsSv(us, i + 1, SetAt(sv, Abs(us[i]), Signed(us[i], 1)))
                      ELSE UnitsSv(us, i + 1, sv)
HasWb == Ev.op \in {"solve", "count", "enum", "optimal", "minimize"}
NewTsv == IF Ev.op = "dump" THEN UnitsSv(Ev.d.units, 1, Zeros(n))
          ELSE IF HasWb THEN WbRes(Ev).sv ELSE tsv
NewPn == IF Ev.op = "dump" THEN Ev.d.n
         ELSE IF Ev.op = "append" THEN Max2(pn, MaxVar(Ev.c.lits)) ELSE pn

Load(k) == /\ n' = Cases[k].n
           /\ mods' = Models(Cases[k].n, AsWrittenAll(Cases[k].cons))
           /\ asm' = <<>> /\ pn' = Cases[k].n /\ tsv' = Zeros(Cases[k].n)

Init == /\ ci = 1 /\ ei = 1 /\ bad = <<>> /\ nev = 0
        /\ IF Len(Cases) >= 1
           THEN /\ n = Cases[1].n /\ mods = Models(Cases[1].n, AsWrittenAll(Cases[1].cons)) /\ asm = <<>> /\ pn = Cases[1].n /\ tsv = Zeros(Cases[1].n)
           ELSE /\ n = 0 /\ mods = {} /\ asm = <<>> /\ pn = 0 /\ tsv = <<>>

Step == /\ ci <= Len(Cases) /\ ei <= Len(Case.ev)
        /\ LET why == Why IN
           bad' = IF why = "" THEN bad ELSE Append(bad, <<Case.id, ei, why>>)
        /\ n' = NewN /\ mods' = NewMods /\ asm' = NewAsm /\ pn' = NewPn /\ tsv' = NewTsv
        /\ ei' = ei + 1 /\ nev' = nev + 1 /\ UNCHANGED ci

NextCase == /\ ci <= Len(Cases) /\ ei > Len(Case.ev)
            /\ ci' = ci + 1 /\ ei' = 1 /\ UNCHANGED <<bad, nev>>
            /\ IF ci + 1 <= Len(Cases) THEN Load(ci + 1) ELSE UNCHANGED <<n, mods, asm, pn, tsv>>

Next == Step \/ NextCase
Spec == Init /\ [][Next]_vars

Done == ci > Len(Cases)
(* evaluated in every state; writes the verdict once, in the final state *)
Emit == Done => JsonSerialize(OutFile, [cases |-> Len(Cases), events |-> nev, bad |-> bad])
=============================================================================
