SPECIFICATION Spec
CONSTANT D = 3
INVARIANTS ModsExact EmitHist
PROPERTIES Monotone Absorbing AsmReplaced
CHECK_DEADLOCK FALSE
