------------------------------- MODULE PBCDCL -------------------------------
(***************************************************************************)
(* The default search of the solver over clauses, cardinality and pseudo-  *)
(* boolean constraints (solver/solver.go propagateAndSearch, watcher.go    *)
(* propagate / propagateUnit, learn.go learnClause / minimizeLearned,      *)
(* reduceLearned, restarts) as a state machine.  It generalises CDCL.tla   *)
(* (clauses only) and is the module the recorded searches of the real code *)
(* are matched against, action by action (SearchTrace.tla).                *)
(*                                                                         *)
(* A constraint is [w, d]: w maps each of its literals to a positive       *)
(* weight, the constraint says Sum{w[l] : l true} >= d.  A clause has all  *)
(* weights 1 and d = 1, a cardinality constraint all weights 1.            *)
(*                                                                         *)
(*   Propagate(c,l)  slack rule: l is unassigned and w[l] > slack(c), the  *)
(*                   slack being Sum{w[x] : x not false} - d               *)
(*   Conflict(c)     slack(c) < 0; conflict analysis is CLAUSAL: it starts *)
(*                   from the literals of c that are false (addClauseLits) *)
(*   Decide(l)       only when nothing is forced and nothing is falsified  *)
(*   Explain(l)      resolve with the reason of a literal of the current   *)
(*                   level: the literals of the reason that were false     *)
(*                   BEFORE the literal was propagated enter the clause    *)
(*   Minimise(l)     drop a lower-level literal whose reason is covered    *)
(*   Backjump        one literal of the current level left: learn the      *)
(*                   clause, go back to the second highest level, assert   *)
(*   Fail / Succeed / Restart / Forget   as in CDCL.tla                    *)
(*                                                                         *)
(* Levels start at 0 here (the code keeps level 1 for facts and starts     *)
(* deciding at level 2: code level = level here + 1).                      *)
(***************************************************************************)
EXTENDS Integers, Sequences, FiniteSets, FiniteSetsExt, TLC, Json, CSV, IOUtils

CONSTANTS MaxRounds,  \* bound on the number of Assume rounds (design runs; 0: plain Solve)
          N,          \* variables 1..N
          K,          \* at most K constraints in the input (design runs)
          MaxLen,     \* constraints of the input have at most MaxLen literals
          W,          \* weights 1..W
          MaxLearn,   \* bound on the number of learning steps (termination of the model)
          MaxRestart  \* bound on the number of restarts

Vars == 1..N
Lit == {v : v \in Vars} \cup {-v : v \in Vars}

VARIABLES F,        \* the input: a set of constraints
          L,        \* learned clauses currently held (as constraints)
          trail,    \* sequence of [lit, lvl, reason]; reason = NOREASON for a decision
          confl,    \* NONE or the clause under analysis (a set of literals, all false)
          status,   \* "Indet", "Sat", "Unsat"
          nlearn, nrestart,
          asm,      \* the literals assumed for the current round (Assume), a set
          nround    \* number of Assume rounds so far
vars == <<F, L, trail, confl, status, nlearn, nrestart, asm, nround>>

NONE == {0}                         \* no clause under analysis
NOREASON == [w |-> <<>>, d |-> 0]   \* the reason of a decision
Lits(c) == DOMAIN c.w
ClauseOf(S) == [w |-> [l \in S |-> 1], d |-> 1]     \* a set of literals as a constraint
IsClause(c) == c.d = 1 /\ \A l \in Lits(c) : c.w[l] = 1

RECURSIVE SumOver(_, _)
SumOver(f, S) == IF S = {} THEN 0 ELSE LET x == CHOOSE x \in S : TRUE IN f[x] + SumOver(f, S \ {x})

Assigned == {trail[i].lit : i \in 1..Len(trail)}
IsFalse(l) == -l \in Assigned
IsTrue(l) == l \in Assigned
Undef(l) == l \notin Assigned /\ -l \notin Assigned
CurLvl == IF trail = <<>> THEN 0 ELSE trail[Len(trail)].lvl
PosOf(l) == CHOOSE i \in 1..Len(trail) : trail[i].lit = l       \* position of a true literal
LvlOf(l) == LET i == CHOOSE i \in 1..Len(trail) : trail[i].lit \in {l, -l} IN trail[i].lvl
ReasonOf(l) == trail[PosOf(l)].reason
DB == F \cup L

(* slack of c under the first k entries of the trail *)
FalseAt(l, k) == \E j \in 1..k : trail[j].lit = -l
SlackAt(c, k) == SumOver(c.w, {l \in Lits(c) : ~FalseAt(l, k)}) - c.d
Slack(c) == SlackAt(c, Len(trail))
FalseLits(c) == {l \in Lits(c) : IsFalse(l)}

SatAsg(a, c) == SumOver(c.w, {l \in Lits(c) : (l > 0 /\ a[l]) \/ (l < 0 /\ ~a[-l])}) >= c.d
SatSet(a, S) == \E l \in S : (l > 0 /\ a[l]) \/ (l < 0 /\ ~a[-l])
ModelsOf(S) == {a \in [Vars -> BOOLEAN] : \A c \in S : SatAsg(a, c)}

(* ---- the input universe of the design runs: every constraint over at most MaxLen literals with *)
(* weights 1..W and a degree between 1 and the sum of the weights                                  *)
(* (operators with a parameter: TLC evaluates constant definitions without parameters when it starts, *)
(* and the trace specification, which never uses the universe, sets N to dozens of variables)          *)
RECURSIVE LitSetsOf(_)
LitSetsOf(m) == IF m = 0 THEN {{}}
                ELSE LET P == LitSetsOf(m - 1) IN P \cup {S \cup {l} : S \in P, l \in Lit}
LitSets(m) == {S \in LitSetsOf(m) : S # {} /\ \A l \in S : -l \notin S}
ConstrOver(S) == UNION {{[w |-> f, d |-> k] : k \in 1..SumOver(f, S)} : f \in [S -> 1..W]}
Universe(m) == UNION {ConstrOver(S) : S \in LitSets(m)}

RECURSIVE UpTo(_)
UpTo(k) == IF k = 0 THEN {{}} ELSE LET P == UpTo(k - 1) IN P \cup {S \cup {a} : S \in P, a \in Universe(MaxLen)}
Init == /\ F \in UpTo(K)
        /\ L = {} /\ trail = <<>> /\ confl = NONE /\ status = "Indet" /\ nlearn = 0 /\ nrestart = 0 /\ asm = {} /\ nround = 0

Forced(c, l) == l \in Lits(c) /\ Undef(l) /\ c.w[l] > Slack(c)
(* Propagation is complete for clauses and cardinality constraints (every literal they force is on  *)
(* the trail before the next decision).  For constraints with weights the code watches a subset of  *)
(* the literals and may decide while such a constraint still forces a literal: that is incomplete,  *)
(* not unsound (what matters is that a falsified constraint is never overlooked: NoConfl)           *)
IsCard(c) == \A l \in Lits(c) : c.w[l] = 1
NoUnit  == \A c \in DB : (IsCard(c) /\ Slack(c) >= 0) => \A l \in Lits(c) : ~Forced(c, l)
NoConfl == \A c \in DB : Slack(c) >= 0

Propagate(c, l) == /\ status = "Indet" /\ confl = NONE /\ c \in DB
                   /\ Forced(c, l)
                   /\ trail' = Append(trail, [lit |-> l, lvl |-> CurLvl, reason |-> c])
                   /\ UNCHANGED <<F, L, confl, status, nlearn, nrestart, asm, nround>>

Conflict(c) == /\ status = "Indet" /\ confl = NONE /\ c \in DB
               /\ Slack(c) < 0
               /\ confl' = FalseLits(c)
               /\ UNCHANGED <<F, L, trail, status, nlearn, nrestart, asm, nround>>

AsmDone == \A l \in asm : IsTrue(l)      \* the assumptions of the round are on the trail
(* the code decides only when propagation is complete and there is no conflict *)
Decide(l) == /\ status = "Indet" /\ confl = NONE /\ NoUnit /\ NoConfl /\ AsmDone
             /\ l \in Lit /\ Undef(l)
             /\ trail' = Append(trail, [lit |-> l, lvl |-> CurLvl + 1, reason |-> NOREASON])
             /\ UNCHANGED <<F, L, confl, status, nlearn, nrestart, asm, nround>>

CurLits == {l \in confl : LvlOf(l) = CurLvl}
(* what the reason of the true literal t contributes: its literals that were false before t *)
Antecedent(t) == LET p == PosOf(t) r == trail[p].reason IN {x \in Lits(r) \ {t} : FalseAt(x, p - 1)}

Explain(l) == /\ status = "Indet" /\ confl # NONE /\ CurLvl > 0
              /\ Cardinality(CurLits) > 1
              /\ l \in CurLits /\ ReasonOf(-l) # NOREASON
              /\ confl' = (confl \ {l}) \cup Antecedent(-l)
              /\ UNCHANGED <<F, L, trail, status, nlearn, nrestart, asm, nround>>

Minimise(l) == /\ status = "Indet" /\ confl # NONE /\ CurLvl > 0
               /\ Cardinality(CurLits) = 1
               /\ l \in confl /\ LvlOf(l) < CurLvl /\ ReasonOf(-l) # NOREASON
               /\ Antecedent(-l) \subseteq confl
               /\ confl' = confl \ {l}
               /\ UNCHANGED <<F, L, trail, status, nlearn, nrestart, asm, nround>>

BackLevel(S, uip) == LET others == S \ {uip} IN
                     IF others = {} THEN 0
                     ELSE CHOOSE m \in {LvlOf(l) : l \in others} : \A l \in others : LvlOf(l) <= m

Backjump == /\ status = "Indet" /\ confl # NONE /\ CurLvl > 0 /\ nlearn < MaxLearn
            /\ Cardinality(CurLits) = 1
            /\ LET uip == CHOOSE l \in confl : LvlOf(l) = CurLvl
                   bt == BackLevel(confl, uip)
                   keep == SelectSeq(trail, LAMBDA e : e.lvl <= bt)
                   lc == ClauseOf(confl)
               IN /\ trail' = Append(keep, [lit |-> uip, lvl |-> bt, reason |-> lc])
                  /\ L' = L \cup {lc}
            /\ confl' = NONE /\ nlearn' = nlearn + 1 /\ UNCHANGED <<F, status, nrestart, asm, nround>>

Fail    == /\ status = "Indet" /\ confl # NONE /\ CurLvl = 0
           /\ status' = "Unsat" /\ UNCHANGED <<F, L, trail, confl, nlearn, nrestart, asm, nround>>

Succeed == /\ status = "Indet" /\ confl = NONE /\ NoConfl /\ AsmDone /\ \A v \in Vars : ~Undef(v)
           /\ status' = "Sat" /\ UNCHANGED <<F, L, trail, confl, nlearn, nrestart, asm, nround>>

Restart == /\ status = "Indet" /\ confl = NONE /\ CurLvl > 0 /\ nrestart < MaxRestart
           /\ trail' = SelectSeq(trail, LAMBDA e : e.lvl = 0)
           /\ nrestart' = nrestart + 1 /\ UNCHANGED <<F, L, confl, status, nlearn, asm, nround>>

Forget(c) == /\ status = "Indet" /\ confl = NONE
             /\ c \in L /\ (\A i \in 1..Len(trail) : trail[i].reason # c) /\ L' = L \ {c}
             /\ UNCHANGED <<F, trail, confl, status, nlearn, nrestart, asm, nround>>

(* ---- rounds under assumptions (Solver.Assume) ------------------------------------------------- *)
(* Assume(ls) starts a round: the trail is emptied (facts are propagated again from their unit      *)
(* constraints), the literals of ls are put on the trail at level 0 WITHOUT a reason (AssumeLit):   *)
(* conflict analysis never resolves them away, so whatever is learned holds without them.  A        *)
(* conflict at level 0 then means: unsatisfiable under the assumptions of this round only.          *)
AsmSets(k) == {S \in LitSetsOf(k) : \A l \in S : -l \notin S}      \* (with a parameter: see LitSetsOf)
NewRound(ls) == /\ confl' = NONE /\ status' = "Indet" /\ trail' = <<>> /\ asm' = ls
                /\ nround' = nround + 1 /\ UNCHANGED <<F, L, nlearn, nrestart>>
AssumeLit(l) == /\ status = "Indet" /\ confl = NONE /\ CurLvl = 0
                /\ l \in asm /\ Undef(l)
                /\ trail' = Append(trail, [lit |-> l, lvl |-> 0, reason |-> NOREASON])
                /\ UNCHANGED <<F, L, confl, status, nlearn, nrestart, asm, nround>>
(* an assumption that the facts already falsify refutes the round *)
AssumeFails(l) == /\ status = "Indet" /\ confl = NONE /\ CurLvl = 0
                  /\ l \in asm /\ IsFalse(l)
                  /\ status' = "Unsat" /\ UNCHANGED <<F, L, trail, confl, nlearn, nrestart, asm, nround>>

Next == \/ \E c \in DB : (\E l \in Lits(c) : Propagate(c, l)) \/ Conflict(c)
        \/ \E l \in Lit : Decide(l)
        \/ (confl # NONE /\ \E l \in confl : Explain(l) \/ Minimise(l))
        \/ Backjump \/ Fail \/ Succeed \/ Restart
        \/ \E c \in L : Forget(c)
        \/ \E l \in asm : AssumeLit(l) \/ AssumeFails(l)
        \/ (nround < MaxRounds /\ status # "Indet" /\ \E ls \in AsmSets(2) : NewRound(ls))
Spec == Init /\ [][Next]_vars

(* ---- invariants ----------------------------------------------------------- *)
TypeOK == /\ status \in {"Indet", "Sat", "Unsat"}
          /\ \A i \in 1..Len(trail) : trail[i].lit \in Lit
TrailConsistent == /\ \A i, j \in 1..Len(trail) : i # j => trail[i].lit # trail[j].lit /\ trail[i].lit # -trail[j].lit
                   /\ \A i, j \in 1..Len(trail) : i < j => trail[i].lvl <= trail[j].lvl
(* every propagated literal is forced by its reason under the part of the trail before it *)
ReasonForces == \A i \in 1..Len(trail) : trail[i].reason # NOREASON =>
                   /\ trail[i].lit \in Lits(trail[i].reason)
                   /\ trail[i].reason.w[trail[i].lit] > SlackAt(trail[i].reason, i - 1)
TheModel == [v \in Vars |-> v \in Assigned]
SatAsm(a) == \A l \in asm : (l > 0 /\ a[l]) \/ (l < 0 /\ ~a[-l])
SatSound      == status = "Sat" => TheModel \in ModelsOf(F) /\ SatAsm(TheModel)
UnsatSound    == status = "Unsat" => {a \in ModelsOf(F) : SatAsm(a)} = {}
LearnEntailed == \A c \in L : \A a \in ModelsOf(F) : SatAsg(a, c)
(* the clause under analysis and what is learned hold in every model of F: never only under asm *)
ConflEntailed == confl # NONE => (\A a \in ModelsOf(F) : SatSet(a, confl)) /\ (\A l \in confl : IsFalse(l))
(* what makes the analysis well defined: every literal of the clause under analysis is false, and  *)
(* while more than one belongs to the current level at least one of them has a reason               *)
AnalysisProgress == (confl # NONE /\ CurLvl > 0 /\ status = "Indet") =>
                       /\ CurLits # {}
                       /\ Cardinality(CurLits) > 1 => \E l \in CurLits : ReasonOf(-l) # NOREASON
(* the strategy of the code is one of the schedules: resolving the literal assigned LAST among those *)
(* of the current level is always possible                                                          *)
LastCur == CHOOSE l \in CurLits : \A x \in CurLits : PosOf(-x) <= PosOf(-l)
LastHasReason == (confl # NONE /\ CurLvl > 0 /\ status = "Indet" /\ Cardinality(CurLits) > 1) => ReasonOf(-LastCur) # NOREASON

(* ---- spec -> code: every initial state is written out as a case ----------- *)
RECURSIVE SeqOf(_)
SeqOf(S) == IF S = {} THEN <<>> ELSE LET x == CHOOSE x \in S : \A y \in S : x <= y IN <<x>> \o SeqOf(S \ {x})
ConstrRec(c) == LET ls == SeqOf(Lits(c)) IN [lits |-> ls, w |-> [i \in 1..Len(ls) |-> c.w[ls[i]]], d |-> c.d]
EmitFile == IF "VERIF_EMIT" \in DOMAIN IOEnv THEN IOEnv.VERIF_EMIT ELSE "pbcdcl_emit.ndjson"
IsInitial == trail = <<>> /\ L = {} /\ status = "Indet" /\ confl = NONE /\ nlearn = 0 /\ nrestart = 0 /\ asm = {} /\ nround = 0
EmitInit == IsInitial => CSVWrite("%1$s", <<ToJson([n |-> N, F |-> {ConstrRec(c) : c \in F}])>>, EmitFile)

(* ---- liveness: the search terminates --------------------------------------- *)
Fairness == WF_vars(Next)
LiveSpec == Spec /\ Fairness
Terminates == <>(status # "Indet" \/ nlearn = MaxLearn)
=============================================================================
