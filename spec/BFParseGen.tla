------------------------------ MODULE BFParseGen ------------------------------
(***************************************************************************)
(* Small-scope enumeration for C17: every token string of length at most L  *)
(* over the alphabet of the formula syntax is read by the reference grammar *)
(* (BFParse.tla) and written out for replay through the real bf.Parse.      *)
(* Design-level checks on the reference itself: it is total; what it        *)
(* accepts contains as many operands as binary operators plus one (counting *)
(* groups as operands); prefixing an accepted text with '^' or wrapping it  *)
(* in parentheses keeps it accepted, with the expected meaning.             *)
(***************************************************************************)
EXTENDS BFParse, TLC, Json, CSV, IOUtils

CONSTANT L
Alphabet == {"a", "b", "^", "&", "|", "->", "=", ";", "(", ")", "{", "}", ","}
Names == <<"a", "b">>
VARIABLE ts
vars == <<ts>>
Init == ts = <<>>
Next == Len(ts) < L /\ \E t \in Alphabet : ts' = Append(ts, t)
Spec == Init /\ [][Next]_vars

P == Parse(ts, Names)
Total == P.ok \in BOOLEAN
NotClosedUnderNothing == P.ok => Len(ts) >= 1
WrapOK == P.ok => LET q == Parse(<<"(">> \o ts \o <<")">>, Names) IN q.ok /\ TruthTable(q.f, 2) = TruthTable(P.f, 2)
NegOK == (P.ok /\ ~\E i \in 1..Len(ts) : ts[i] \in {"&", "|", "->", "=", ";"}) =>
            LET q == Parse(<<"^">> \o ts, Names) IN q.ok /\ TruthTable(q.f, 2) = Assignments(2) \ TruthTable(P.f, 2)

EmitFile == IF "VERIF_EMIT" \in DOMAIN IOEnv THEN IOEnv.VERIF_EMIT ELSE "parse_emit.ndjson"
EmitTs == Len(ts) >= 1 => CSVWrite("%1$s", <<ToJson([ts |-> ts, ok |-> P.ok])>>, EmitFile)
=============================================================================
