SPECIFICATION Spec
CONSTANTS
  K = 3
  Scheme = "highest"
INVARIANT Complete
CHECK_DEADLOCK FALSE
