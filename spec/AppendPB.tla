------------------------------ MODULE AppendPB ------------------------------
(***************************************************************************)
(* Adding a pseudo-boolean constraint to a live solver                      *)
(* (solver/solver.go AppendClause, solver/clause.go NewPBClause, removeLit, *)
(* solver/watcher.go watchPB), properties C09 and - through the bound       *)
(* constraints of Optimal / Minimize - C03.                                 *)
(*                                                                          *)
(*   Sort      NewPBClause orders the terms by non-increasing weight (any   *)
(*             such order: sort.Sort is not stable)                         *)
(*   Scan      AppendClause looks at the terms one by one under the         *)
(*             top-level facts: a true literal adds its weight to minW and  *)
(*             maxW and is removed (the required sum of what is left drops  *)
(*             by its weight), a false literal is removed, an unassigned    *)
(*             one adds its weight to maxW.  removeLit moves the LAST term  *)
(*             into the hole: what is left is no longer sorted.             *)
(*   Classify  minW >= card: nothing to do; maxW < card: the solver becomes *)
(*             Unsat; maxW = card: every literal left is asserted as a      *)
(*             fact (UnitRule = "exact"); otherwise the residual constraint *)
(*             is kept and watched (watchPB: the leading terms until their  *)
(*             weights reach card + weight of the first term).              *)
(*                                                                          *)
(* UnitRule = "last" is the seeded change C03-out25 ("if the constraint     *)
(* cannot be satisfied without its last, lightest, term every term is       *)
(* forced"): wrong because what is left is not sorted any more.             *)
(*                                                                          *)
(* Initial states: every constraint over NV variables with at most MaxK     *)
(* terms, weights 1..W, any required sum, x every consistent set of         *)
(* top-level facts.  Each is written out and replayed on the real solver    *)
(* (facts as unit clauses, Solve, AppendClause, CountModels, Solve).        *)
(***************************************************************************)
EXTENDS Logic, TLC, Json, CSV, IOUtils

CONSTANTS NV, W, MaxK, UnitRule

Vars == 1..NV
Lits == {v : v \in Vars} \cup {-v : v \in Vars}

VARIABLES facts,     \* set of literals true at the top level
          c0,        \* the constraint as the caller wrote it: [lits, w, d]  (sum of w over true lits >= d)
          lits, ws,  \* the terms still in the clause object
          card,      \* the local variable card of AppendClause (never updated)
          rcard,     \* the cardinality field of the clause object (updateCardinality)
          i, minW, maxW, pc, outcome
vars == <<facts, c0, lits, ws, card, rcard, i, minW, maxW, pc, outcome>>

Consistent(S) == \A l \in S : -l \notin S
SeqsOver(S, k) == [1..k -> S]
DistinctVars(ls) == \A a, b \in 1..Len(ls) : a # b => Abs(ls[a]) # Abs(ls[b])
SumSeq(s) == LET RECURSIVE Go(_)
                 Go(k) == IF k = 0 THEN 0 ELSE s[k] + Go(k - 1)
             IN Go(Len(s))

Init == /\ facts \in {S \in SUBSET Lits : Consistent(S)}
        /\ \E k \in 1..MaxK : \E ls \in SeqsOver(Lits, k) : \E w \in SeqsOver(1..W, k) :
             /\ DistinctVars(ls)
             /\ \E d \in 1..SumSeq(w) : c0 = [lits |-> ls, w |-> w, d |-> d]
        /\ lits = <<>> /\ ws = <<>> /\ card = 0 /\ rcard = 0 /\ i = 1 /\ minW = 0 /\ maxW = 0
        /\ pc = "sort" /\ outcome = "none"

(* permutations of 1..k *)
Perms(k) == {p \in [1..k -> 1..k] : \A a, b \in 1..k : a # b => p[a] # p[b]}
Sort == /\ pc = "sort"
        /\ \E p \in Perms(Len(c0.lits)) :
             /\ \A a \in 1..(Len(c0.lits) - 1) : c0.w[p[a]] >= c0.w[p[a + 1]]
             /\ lits' = [a \in 1..Len(c0.lits) |-> c0.lits[p[a]]]
             /\ ws' = [a \in 1..Len(c0.lits) |-> c0.w[p[a]]]
        /\ card' = c0.d /\ rcard' = c0.d /\ pc' = "scan"
        /\ UNCHANGED <<facts, c0, i, minW, maxW, outcome>>

(* removeLit(idx): the last term moves into the hole *)
RemoveAt(s, idx) == IF idx = Len(s) THEN SubSeq(s, 1, Len(s) - 1)
                    ELSE [a \in 1..(Len(s) - 1) |-> IF a = idx THEN s[Len(s)] ELSE s[a]]

Scan == /\ pc = "scan" /\ i <= Len(lits)
        /\ LET l == lits[i] IN
           IF l \in facts
           THEN /\ minW' = minW + ws[i] /\ maxW' = maxW + ws[i]
                /\ lits' = RemoveAt(lits, i) /\ ws' = RemoveAt(ws, i)
                /\ rcard' = IF ws[i] >= rcard THEN 1 ELSE rcard - ws[i]      \* updateCardinality(-w), clamped
                /\ UNCHANGED i
           ELSE IF -l \in facts
           THEN /\ lits' = RemoveAt(lits, i) /\ ws' = RemoveAt(ws, i)
                /\ UNCHANGED <<minW, maxW, rcard, i>>
           ELSE /\ maxW' = maxW + ws[i] /\ i' = i + 1 /\ UNCHANGED <<minW, lits, ws, rcard>>
        /\ UNCHANGED <<facts, c0, card, pc, outcome>>

IsUnit == IF UnitRule = "exact" THEN maxW = card
          ELSE (* "last": cannot be satisfied without the last term *) Len(ws) > 0 /\ maxW - ws[Len(ws)] < card

Classify == /\ pc = "scan" /\ i > Len(lits)
            /\ outcome' = IF minW >= card THEN "sat"
                          ELSE IF maxW < card THEN "unsat"
                          ELSE IF IsUnit THEN "unit" ELSE "watch"
            /\ pc' = "done"
            /\ UNCHANGED <<facts, c0, lits, ws, card, rcard, i, minW, maxW>>

Next == Sort \/ Scan \/ Classify
Spec == Init /\ [][Next]_vars

(* ---- what must hold when AppendClause returns ---------------------------------------------------- *)
C0 == [lits |-> c0.lits, w |-> c0.w, rel |-> ">=", rhs |-> c0.d]
FactModels == {a \in Assignments(NV) : \A l \in facts : LitTrue(a, l)}
M0 == {a \in FactModels : SatC(a, C0)}
Residual == [lits |-> lits, w |-> ws, rel |-> ">=", rhs |-> rcard]
OutcomeCorrect ==
  pc = "done" =>
    CASE outcome = "sat"   -> M0 = FactModels
      [] outcome = "unsat" -> M0 = {}
      [] outcome = "unit"  -> M0 = {a \in FactModels : \A k \in 1..Len(lits) : LitTrue(a, lits[k])}
      [] outcome = "watch" -> M0 = {a \in FactModels : SatC(a, Residual)}
      [] OTHER -> FALSE
(* the terms left never mention a variable that has a value, and each variable once *)
ResidualClean == pc = "done" => /\ \A k \in 1..Len(lits) : lits[k] \notin facts /\ -lits[k] \notin facts
                                /\ DistinctVars(lits)
(* watchPB: the leading terms are watched until their weights reach card + ws[1].  Whatever the     *)
(* search assigns later, a falsified constraint has a false WATCHED literal (so the falsification is *)
(* noticed): there is no assignment falsifying the residual in which all watched literals are true   *)
(* or unassigned, i.e. the watched terms alone can reach the required sum.                            *)
RECURSIVE WatchLen(_, _, _)
WatchLen(k, sum, goal) == IF sum >= goal \/ k > Len(ws) THEN k - 1 ELSE WatchLen(k + 1, sum + ws[k], goal)
Watched == WatchLen(1, 0, ws[1] + rcard)
WatchedSum == SumSeq(SubSeq(ws, 1, Watched))
WatchDetects == (pc = "done" /\ outcome = "watch") => WatchedSum >= rcard

(* ---- spec -> code ---------------------------------------------------------------------------------- *)
EmitFile == IF "VERIF_EMIT" \in DOMAIN IOEnv THEN IOEnv.VERIF_EMIT ELSE "appendpb_emit.ndjson"
SetToSeq(S) == LET RECURSIVE Go(_)
                   Go(T) == IF T = {} THEN <<>> ELSE LET x == CHOOSE x \in T : TRUE IN <<x>> \o Go(T \ {x})
               IN Go(S)
EmitInit == pc = "sort" => CSVWrite("%1$s", <<ToJson([n |-> NV, facts |-> SetToSeq(facts), c |-> c0])>>, EmitFile)
=============================================================================
