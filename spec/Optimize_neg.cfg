SPECIFICATION Spec
CONSTANTS
  N = 2
  W = 1
  NegWeights = TRUE
INVARIANTS Optimal
CHECK_DEADLOCK FALSE
