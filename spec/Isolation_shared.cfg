SPECIFICATION Spec
CONSTANTS
  K = 2
  C = 3
  Shared = TRUE
INVARIANTS NoInterference
CHECK_DEADLOCK FALSE
