SPECIFICATION Spec
CONSTANTS
  N = 2
  W = 2
  Rounding = "ceil"
INVARIANTS RoundSound
CHECK_DEADLOCK FALSE
