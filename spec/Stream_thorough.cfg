SPECIFICATION Spec
CONSTANTS
  MaxM = 3
  MaxCap = 2
INVARIANTS NoPanic PrefixOK NotClosedEarly AtEnd NoDeadlock EmitSched
CHECK_DEADLOCK FALSE
