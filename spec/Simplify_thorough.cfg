SPECIFICATION Spec
CONSTANTS
  L = 5
  Repass = "all"
INVARIANTS ModelsPreserved Fixpoint EmitInput
CHECK_DEADLOCK FALSE
