-------------------------------- MODULE MaxSat --------------------------------
(***************************************************************************)
(* Weighted partial MaxSAT (package maxsat, property C04): the semantic     *)
(* optimum and the encoding the code uses.                                  *)
(*                                                                          *)
(* Instance: sequence of [c, weight]; c = [lits, w, d] meaning              *)
(* Sum w*lits >= d with w > 0; weight = 0 for a hard constraint.            *)
(*   Semantics   optimum = min over assignments satisfying the hard         *)
(*               constraints of the total weight of the violated soft ones  *)
(*   Encoding    every soft constraint i gets a fresh blocking variable b_i *)
(*               with coefficient d:  Sum w*lits + d*b_i >= d; the cost     *)
(*               function is Sum weight_i * b_i; WCNF: the relaxation       *)
(*               variables are numbered after the declared ones             *)
(* Theorem (TLC, every instance of the scope): hard part unsatisfiable iff  *)
(* the encoding is; the optimum of the encoding equals the semantic         *)
(* optimum; an optimal encoded model projected on the user's variables is   *)
(* an optimal assignment.  The variant Blocking = "one" (coefficient 1 on   *)
(* the blocking literal, what the code did for cardinality constraints      *)
(* before commit c431e2c) violates the theorem.                             *)
(***************************************************************************)
EXTENDS Logic, TLC, Json, CSV, IOUtils

CONSTANTS N,         \* user variables
          MaxC,      \* constraints per instance
          Blocking   \* "degree" (intended) or "one" (as coded for cardinality constraints once)
VARIABLE inst
vars == <<inst>>

(* constraint universe: clauses, cardinality constraints (degree 2), small PB constraints over 1..N *)
LitsU == {<<1>>, <<-1>>, <<1, 2>>, <<-1, 2>>, <<1, -2>>, <<-1, -2>>}
ConsU == {[lits |-> ls, w |-> Ones(Len(ls)), d |-> d] : ls \in LitsU, d \in 1..2}
         \cup {[lits |-> <<1, 2>>, w |-> <<2, 1>>, d |-> d] : d \in 1..3}
Items == {[c |-> c, weight |-> wt] : c \in ConsU, wt \in 0..2}
Insts == UNION {[1..k -> Items] : k \in 1..MaxC}
Init == inst \in Insts
Next == UNCHANGED inst
Spec == Init /\ [][Next]_vars

Hard == {i \in 1..Len(inst) : inst[i].weight = 0}
Soft == {i \in 1..Len(inst) : inst[i].weight # 0}
HardModels == {a \in Assignments(N) : \A i \in Hard : SatC(a, NormC(inst[i].c))}
RECURSIVE VFrom(_, _)
VFrom(a, i) == IF i > Len(inst) THEN 0
               ELSE (IF inst[i].weight # 0 /\ ~SatC(a, NormC(inst[i].c)) THEN inst[i].weight ELSE 0) + VFrom(a, i + 1)
SemOpt == CHOOSE k \in {VFrom(m, 1) : m \in HardModels} : \A m \in HardModels : VFrom(m, 1) >= k

(* the encoding over N + |Soft| variables: blocking variable of the j-th soft constraint is N + j *)
SoftSeq == SelectSeq([i \in 1..Len(inst) |-> i], LAMBDA i : inst[i].weight # 0)
BlockOf(i) == N + (CHOOSE j \in 1..Len(SoftSeq) : SoftSeq[j] = i)
Enc(i) == IF inst[i].weight = 0 THEN NormC(inst[i].c)
          ELSE [lits |-> Append(inst[i].c.lits, BlockOf(i)),
                w |-> Append(inst[i].c.w, IF Blocking = "degree" THEN inst[i].c.d ELSE 1),
                rel |-> ">=", rhs |-> inst[i].c.d]
NE == N + Len(SoftSeq)
EncModels == {a \in Assignments(NE) : \A i \in 1..Len(inst) : SatC(a, Enc(i))}
RECURSIVE ECostFrom(_, _)
ECostFrom(a, j) == IF j > Len(SoftSeq) THEN 0 ELSE (IF a[N + j] THEN inst[SoftSeq[j]].weight ELSE 0) + ECostFrom(a, j + 1)
EncOpt == CHOOSE k \in {ECostFrom(m, 1) : m \in EncModels} : \A m \in EncModels : ECostFrom(m, 1) >= k

EncodingCorrect ==
  /\ (HardModels = {}) = (EncModels = {})
  /\ HardModels # {} => /\ EncOpt = SemOpt
                        /\ \A m \in EncModels : ECostFrom(m, 1) = EncOpt =>
                              /\ Restrict(m, N) \in HardModels
                              /\ VFrom(Restrict(m, N), 1) = SemOpt

EmitFile == IF "VERIF_EMIT" \in DOMAIN IOEnv THEN IOEnv.VERIF_EMIT ELSE "maxsat_emit.ndjson"
EmitInst == CSVWrite("%1$s", <<ToJson([n |-> N, inst |-> inst])>>, EmitFile)
=============================================================================
