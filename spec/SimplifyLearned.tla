--------------------------- MODULE SimplifyLearned ---------------------------
(***************************************************************************)
(* What the cutting-planes search keeps of a derived constraint             *)
(* (solver/clause.go SimplifyPB, solver/learn_pb.go cuttingPlanes,          *)
(* solver/solver.go propagateAndSearchPB; property C14, fix 8216818).       *)
(*                                                                          *)
(* A derived constraint  Sum w[i]*lit[i] >= d  (weights > 0, at most one    *)
(* literal per variable) is split by SimplifyPB into the literals it forces *)
(* whatever the assignment (w[i] > total - d) and the REST: the other terms *)
(* with the degree lowered by the forced weights (nothing if that is <= 0). *)
(*   KeepRest = TRUE    the forced literals become facts and the rest is    *)
(*                      added to the solver (the code since 8216818)        *)
(*   KeepRest = FALSE   when some literal is forced the rest is dropped     *)
(*                      (the code before): if the forced literals were      *)
(*                      known already nothing at all is learned             *)
(* NothingLost: what is kept has exactly the models of the derived          *)
(* constraint.  Checked for every constraint over N variables with weights  *)
(* up to W.                                                                 *)
(***************************************************************************)
EXTENDS Integers, FiniteSets, TLC, Json, CSV, IOUtils

CONSTANTS N, W, KeepRest
Vars == 1..N
Abs(x) == IF x < 0 THEN -x ELSE x
(* signed coefficient per variable as in CuttingPlanes.tla: > 0 the variable, < 0 its negation, 0 absent *)
PB == [w : [Vars -> (-W)..W], d : 0..(N * W + 1)]
Asg == [Vars -> BOOLEAN]
VARIABLE pb
Init == pb \in PB
Next == UNCHANGED pb
Spec == Init /\ [][Next]_pb

RECURSIVE SumTo(_, _, _)
SumTo(c, a, v) == IF v = 0 THEN 0
                  ELSE SumTo(c, a, v - 1) + (IF c.w[v] > 0 /\ a[v] THEN c.w[v]
                                             ELSE IF c.w[v] < 0 /\ ~a[v] THEN -c.w[v] ELSE 0)
Sat(a, c) == SumTo(c, a, N) >= c.d
ModelsOf(S) == {a \in Asg : \A c \in S : Sat(a, c)}
RECURSIVE TotalTo(_, _)
TotalTo(c, v) == IF v = 0 THEN 0 ELSE TotalTo(c, v - 1) + Abs(c.w[v])
Total(c) == TotalTo(c, N)

Forced(c) == {v \in Vars : c.w[v] # 0 /\ Abs(c.w[v]) > Total(c) - c.d}
RECURSIVE ForcedWeightTo(_, _)
ForcedWeightTo(c, v) == IF v = 0 THEN 0 ELSE ForcedWeightTo(c, v - 1) + (IF v \in Forced(c) THEN Abs(c.w[v]) ELSE 0)
UnitOf(c, v) == [w |-> [u \in Vars |-> IF u = v THEN (IF c.w[v] > 0 THEN 1 ELSE -1) ELSE 0], d |-> 1]
Rest(c) == [w |-> [v \in Vars |-> IF v \in Forced(c) THEN 0 ELSE c.w[v]], d |-> c.d - ForcedWeightTo(c, N)]
(* what the search keeps *)
Kept(c) == IF Forced(c) = {} THEN {c}
           ELSE {UnitOf(c, v) : v \in Forced(c)} \cup (IF KeepRest /\ Rest(c).d > 0 THEN {Rest(c)} ELSE {})

(* SimplifyPB reports an unsatisfiable constraint when even all its literals do not reach the degree *)
Satisfiable(c) == Total(c) >= c.d
NothingLost == Satisfiable(pb) => ModelsOf(Kept(pb)) = ModelsOf({pb})
UnsatExact == ~Satisfiable(pb) <=> ModelsOf({pb}) = {}

(* spec -> code: every constraint with a positive degree and at least one term goes through the real SimplifyPB *)
EmitFile == IF "VERIF_EMIT" \in DOMAIN IOEnv THEN IOEnv.VERIF_EMIT ELSE "split_emit.ndjson"
EmitSplit == (pb.d >= 1 /\ \E v \in Vars : pb.w[v] # 0) =>
               CSVWrite("%1$s", <<ToJson([op |-> "split", w |-> pb.w, d |-> pb.d])>>, EmitFile)
=============================================================================
