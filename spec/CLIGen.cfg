SPECIFICATION Spec
INVARIANTS Total Neutral ErrorsFirst CertOnlyDecide EmitCfg
CHECK_DEADLOCK FALSE
