---------------------------- MODULE FormatsTrace ----------------------------
(***************************************************************************)
(* Code -> spec for the text formats: parsing (C13) and printing followed   *)
(* by re-parsing (C18).  The meaning of a file is the meaning of the        *)
(* abstract file the renderer printed (Formats.tla): constraints as         *)
(* written, interpreted by Logic!AsWritten, cost function by Logic!Cost.    *)
(*                                                                          *)
(* Case: [id, kind, n, cons, hasObj, obj, ev].  Problem dumps are records   *)
(* [n, units, cons, status] (solver.Problem) read through public fields.    *)
(***************************************************************************)
EXTENDS Formats, Json, IOUtils

Cases == ndJsonDeserialize(IOEnv.VERIF_TRACE)
OutFile == IOEnv.VERIF_OUT

VARIABLES ci, ei, mods, bad, nev
vars == <<ci, ei, mods, bad, nev>>
Case == Cases[ci]
Ev == Case.ev[ei]
N == Case.n

(* A case either carries the abstract file the Go renderer printed (cons, hasObj, obj) or, when it   *)
(* was enumerated by FormatsGen.tla, the tokens of the text (ts): its meaning is then what the        *)
(* reference reader of Formats.tla reads from the tokens.                                             *)
IsText(c) == Len(c.ts) > 0
OpbOf(c) == OpbRead(c.n, c.ts)
HasObj == IF IsText(Case) /\ Case.kind = "opb" THEN OpbOf(Case).hasObj ELSE Case.hasObj
Obj == IF IsText(Case) /\ Case.kind = "opb" THEN OpbOf(Case).obj ELSE Case.obj
TextOf(c) == IF c.kind = "cnf" THEN CnfText(c.n, c.m, c.ts) ELSE OpbText(c.n, c.m, c.ts)
TextWF(c) == IF c.kind = "cnf" THEN CnfRead(c.n, c.m, c.ts).wf ELSE OpbOf(c).wf
(* the bytes fed to the parser are the rendering of the tokens, and the tokens are a well-formed text *)
TextWhy(e) == IF ~IsText(Case) THEN ""
              ELSE IF ~TextWF(Case) THEN "harness:text-not-well-formed"
              ELSE IF e.text # TextOf(Case) THEN "harness:text-not-the-rendering-of-its-tokens"
              ELSE ""

DumpModels(d) ==
  IF d.status = "UNSAT" THEN {}
  ELSE {a \in Assignments(d.n) : /\ SatLits(a, d.units)
                                 /\ \A i \in 1..Len(d.cons) : SatC(a, NormC(d.cons[i]))}

(* the declared variables: DIMACS and WCNF headers declare them and must be honoured; the     *)
(* OPB reader infers the count from the terms, so there the highest variables may be missing  *)
(* if and only if they are free (padding)                                                     *)
SameModels(d, M, n, strictN) ==
  IF strictN THEN d.n = n /\ DumpModels(d) = M
  ELSE d.n <= n /\ Extend(DumpModels(d), d.n, n) = M

SameCost(M, o1, o2) == \A m \in M : Cost(m, o1) = Cost(m, o2)
ObjVarsOK(o, k) == \A i \in 1..Len(o.lits) : Abs(o.lits[i]) <= k /\ o.lits[i] # 0

ParseWhy(e) ==
  IF e.panic THEN "parse-panic"
  ELSE IF e.err THEN "parse-error-on-well-formed-text"
  ELSE IF ~SameModels(e.d, mods, N, Case.kind # "opb") THEN "parse-models-differ"
  ELSE IF HasObj /\ mods # {} /\ (~e.hasObjD \/ ~ObjVarsOK(e.objD, N)) THEN "parse-objective-lost"
  ELSE IF HasObj /\ ~SameCost(mods, Obj, e.objD) THEN "parse-cost-differs"
  ELSE IF ~HasObj /\ e.hasObjD THEN "parse-objective-invented"
  (* what the solver makes of the parsed problem: its model count is the number of models of the text *)
  ELSE IF "counted" \in DOMAIN e /\ e.counted /\ e.count # Cardinality(DumpModels(e.d)) THEN "parse-count-differs"
  ELSE ""

(* explain.ParseCNF: dump [n, nb, clauses] *)
EParseWhy(e) ==
  IF e.panic THEN "parse-panic"
  ELSE IF e.err THEN "parse-error-on-well-formed-text"
  ELSE IF e.d.n # N THEN "parse-models-differ"
  ELSE IF e.d.nb # Len(e.d.clauses) THEN "parse-nbclauses"
  ELSE IF \E i \in 1..Len(e.d.clauses) : MaxVar(e.d.clauses[i]) > N THEN "parse-models-differ"
  ELSE IF ClauseModels(N, e.d.clauses) # mods THEN "parse-models-differ"
  ELSE ""

(* C18: orig = dump of the problem that was printed, re = dump of the re-parsed text, lex = the    *)
(* printed text as lexed tokens.  "Well-formed text of its format" is decided by the reference      *)
(* readers of Formats.tla on the tokens, independently of the project's own parsers, and the        *)
(* reference reading must have the models (and costs) of the problem that was printed.              *)
RefCnf(e) == CnfReadL(e.hdrVars, e.hdrClauses, e.lex)
RefOpb(e) == OpbReadL(e.orig.n, e.lex)
RefWF(e) == IF e.hdr THEN RefCnf(e).wf ELSE RefOpb(e).wf
RefModels(e) == IF e.hdr THEN ClauseModels(e.orig.n, RefCnf(e).clauses)
                ELSE Models(e.orig.n, AsWrittenAll(RefOpb(e).cons))
PrintWhy(e) ==
  IF e.panic THEN "print-panic"
  ELSE IF e.reErr THEN "print-not-accepted-by-parser"
  ELSE IF e.hdr /\ (e.hdrClauses # e.nbLines \/ e.hdrVars < e.maxVar) THEN "print-header-counts"
  ELSE IF e.hdr /\ e.hdrVars # e.orig.n THEN "print-header-counts"
  ELSE IF ~RefWF(e) THEN "print-not-well-formed"
  ELSE IF RefModels(e) # DumpModels(e.orig) THEN "print-models-differ"
  ELSE IF ~e.hdr /\ RefOpb(e).hasObj # e.hasObj THEN (IF e.hasObj THEN "print-objective-lost" ELSE "print-objective-invented")
  ELSE IF ~e.hdr /\ e.hasObj /\ ~SameCost(DumpModels(e.orig), e.obj, RefOpb(e).obj) THEN "print-cost-differs"
  ELSE IF ~SameModels(e.re, DumpModels(e.orig), e.orig.n, e.strictN) THEN "print-models-differ"
  ELSE IF e.hasObj /\ DumpModels(e.orig) # {} /\ (~e.hasObjRe \/ ~ObjVarsOK(e.objRe, e.orig.n)) THEN "print-objective-lost"
  ELSE IF e.hasObj /\ ~SameCost(DumpModels(e.orig), e.obj, e.objRe) THEN "print-cost-differs"
  ELSE IF ~e.hasObj /\ e.hasObjRe THEN "print-objective-invented"
  ELSE ""

(* explain.Problem.CNF: orig/re are [n, nb, clauses] *)
EPrintWhy(e) ==
  IF e.panic THEN "print-panic"
  ELSE IF e.reErr THEN "print-not-accepted-by-parser"
  ELSE IF e.hdrClauses # e.nbLines \/ e.hdrVars < e.maxVar \/ e.hdrVars # e.orig.n THEN "print-header-counts"
  ELSE IF ~CnfReadL(e.hdrVars, e.hdrClauses, e.lex).wf THEN "print-not-well-formed"
  ELSE IF ClauseModels(e.orig.n, CnfReadL(e.hdrVars, e.hdrClauses, e.lex).clauses) # ClauseModels(e.orig.n, e.orig.clauses)
       THEN "print-models-differ"
  ELSE IF e.re.n # e.orig.n \/ ClauseModels(e.re.n, e.re.clauses) # ClauseModels(e.orig.n, e.orig.clauses)
       THEN "print-models-differ"
  ELSE ""

(* named deviation (open known finding): a problem that is already known to be unsatisfiable  *)
(* (Status Unsat after parsing) is printed without any unsatisfiable constraint              *)
KFPrint(e, w) == IF w = "print-models-differ" /\ e.orig.status = "UNSAT" THEN "kf:print-of-unsat-problem:" \o w ELSE w

First(a, b2) == IF a # "" THEN a ELSE b2
Why == CASE Ev.op = "parse"   -> First(TextWhy(Ev), ParseWhy(Ev))
         [] Ev.op = "eparse"  -> First(TextWhy(Ev), EParseWhy(Ev))
         [] Ev.op = "print"   -> KFPrint(Ev, PrintWhy(Ev))
         [] Ev.op = "eprint"  -> EPrintWhy(Ev)
         [] Ev.op = "skip"    -> ""
         [] Ev.op = "crash"   -> "crash"
         [] Ev.op = "timeout" -> "timeout"
         [] OTHER             -> "unknown-event"

M0(c) == IF ~IsText(c) THEN Models(c.n, AsWrittenAll(c.cons))
         ELSE IF c.kind = "cnf" THEN ClauseModels(c.n, CnfRead(c.n, c.m, c.ts).clauses)
         ELSE Models(c.n, AsWrittenAll(OpbOf(c).cons))
Init == /\ ci = 1 /\ ei = 1 /\ bad = <<>> /\ nev = 0
        /\ mods = IF Len(Cases) >= 1 THEN M0(Cases[1]) ELSE {}
Step == /\ ci <= Len(Cases) /\ ei <= Len(Case.ev)
        /\ LET why == Why IN
           bad' = IF why = "" THEN bad ELSE Append(bad, <<Case.id, ei, why>>)
        /\ ei' = ei + 1 /\ nev' = nev + 1 /\ UNCHANGED <<ci, mods>>
NextCase == /\ ci <= Len(Cases) /\ ei > Len(Case.ev)
            /\ ci' = ci + 1 /\ ei' = 1 /\ UNCHANGED <<bad, nev>>
            /\ mods' = IF ci + 1 <= Len(Cases) THEN M0(Cases[ci + 1]) ELSE {}
Next == Step \/ NextCase
Spec == Init /\ [][Next]_vars
Done == ci > Len(Cases)
Emit == Done => JsonSerialize(OutFile, [cases |-> Len(Cases), events |-> nev, bad |-> bad])
=============================================================================
