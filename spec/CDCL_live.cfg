SPECIFICATION LiveSpec
CONSTANTS
  N = 2
  K = 3
  MaxLen = 2
  MaxLearn = 3
  MaxRestart = 1
PROPERTY Terminates
CHECK_DEADLOCK FALSE
