#!/bin/bash
# usage: seedtest.sh <agent out dir>/<Cxx> <worktree> [check ids...]
# 1. confirms the seeded change in the scratch worktree (tests pass, demo fails with / passes without)
# 2. applies it to /repo, runs the quick checks given (default: the property itself), reverts /repo
# 3. stores it under /verif/seeded/<name>/
set -u
export GOFLAGS=-mod=mod GOPROXY=off GOSUMDB=off GOTOOLCHAIN=local
SRC=$1; WT=$2; shift 2
PROP=$(python3 -c "import json;print(json.load(open('$SRC/meta.json'))['property'])")
NAME=${SEEDNAME:-$PROP-$(basename $(dirname $SRC))}
CHECKS=${@:-$PROP}
DEMO_PATH=$(python3 -c "import json;print(json.load(open('$SRC/meta.json'))['demo_path'].split()[0])")
DEMO_CMD=$(python3 -c "import json,re;print(re.sub(r'\s{2,}\(.*\)\s*$','',json.load(open('$SRC/meta.json'))['demo_cmd']))")
DEMO_FILE=$(ls $SRC | grep -v -E '^(patch.diff|meta.json)$' | head -1)
echo "== $NAME: property $PROP demo=$DEMO_FILE -> $DEMO_PATH cmd: $DEMO_CMD"
git -C $WT checkout -q -- . ; git -C $WT clean -fdq
mkdir -p $WT/$(dirname $DEMO_PATH); cp $SRC/$DEMO_FILE $WT/$DEMO_PATH
cd $WT
CMD=$(echo "$DEMO_CMD" | sed -e "s#<repo root>#$WT#g" -e "s#<repo>#$WT#g" -e "s#<repository root>#$WT#g" -e "s#<worktree>#$WT#g")
( eval "$CMD" ) > /tmp/seed_demo_clean.log 2>&1; CLEAN=$?
git apply $SRC/patch.diff || { echo "PATCH DOES NOT APPLY"; exit 3; }
go build ./... || { echo "DOES NOT BUILD"; exit 3; }
( eval "$CMD" ) > /tmp/seed_demo_patched.log 2>&1; PATCHED=$?
rm -f $WT/$DEMO_PATH
go test -vet=off -count=1 ./... > /tmp/seed_suite.log 2>&1; SUITE=$?
git checkout -q -- . ; git clean -fdq
echo "   demo on clean tree: exit $CLEAN (want 0); demo with change: exit $PATCHED (want !=0); existing suite with change: exit $SUITE (want 0)"
cd /verif
mkdir -p seeded/$NAME && cp $SRC/patch.diff $SRC/$DEMO_FILE seeded/$NAME/ && cp $SRC/meta.json seeded/$NAME/meta.json
RESULT=""
for c in $CHECKS; do
  out=$(tools/seedcheck.sh $NAME $c | tail -1)
  echo "   $out"
  RESULT="$RESULT $(echo "$out" | sed -E 's/.*check (C[0-9]+) exit ([0-9]+), ([0-9]+) VIOLATION.*/\1:exit\2:\3/')"
done
mkdir -p seeded/$NAME && cp $SRC/patch.diff $SRC/$DEMO_FILE seeded/$NAME/
python3 - <<PY
import json
m=json.load(open('$SRC/meta.json'))
m['confirmed']={'demo_clean_exit':$CLEAN,'demo_changed_exit':$PATCHED,'suite_with_change_exit':$SUITE}
m['checks_run']='$RESULT'.split()
json.dump(m,open('/verif/seeded/$NAME/meta.json','w'),indent=1)
PY
