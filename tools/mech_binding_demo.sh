#!/bin/bash
# Binding demonstration for spec/SearchTrace.tla (DESIGN.md 15.2b): records one search of a planted
# 24-variable formula on the real solver (tag verif), checks that TLC accepts it as a behaviour of
# PBCDCL.tla, then corrupts one recorded field at a time and checks that each corrupted trace is rejected.
# usage: tools/mech_binding_demo.sh   (run from /verif; scratch files under a mktemp directory)
set -e
export GOFLAGS=-mod=mod GOPROXY=off GOSUMDB=off GOTOOLCHAIN=local
T=$(mktemp -d); trap 'rm -rf $T' EXIT
(cd harness && go build -tags verif -o $T/vdrive ./cmd/vdrive)
python3 - $T <<'PY'
import json,random,sys
T=sys.argv[1]; random.seed(5); n=24
w=[random.random()<0.5 for _ in range(n)]; cl=[]
while len(cl)<int(4.4*n):
    vs=random.sample(range(1,n+1),3); c=[v if random.random()<0.5 else -v for v in vs]
    if any((l>0)==w[abs(l)-1] for l in c): cl.append(c)
case={"id":"p1","drv":"api","front":"slicenb","n":n,"strict":True,"cons":[{"k":"clause","lits":c,"w":[1]*3,"rhs":1} for c in cl],"hasObj":False,"obj":{"lits":[],"w":[]},"cfg":{"wb":True,"cert":False,"reduceAt":3,"restartEvery":4,"cp":False,"amo":False,"cap":0,"layout":0,"layoutSeed":0},"ev":[{"op":"solve"}]}
open(T+'/case.ndjson','w').write(json.dumps(case)+'\n')
PY
$T/vdrive -in $T/case.ndjson -out $T/trace.ndjson
python3 - $T <<'PY'
import json,copy,sys
T=sys.argv[1]
t=json.loads(open(T+'/trace.ndjson').readline()); d=t['ev'][0]['d']; s=t['ev'][1]
base={'id':'intact','n':d['n'],'units':d['units'],'cons':d['cons'],'status':s['status'],'sts':[],'ev':s['wb']}
out=[]
def add(name,fn):
    r=copy.deepcopy(base); r['id']=name; fn(r); out.append(r)
add('intact',lambda r:None)
def drop_conflict(r):
    i=[k for k,e in enumerate(r['ev']) if e['k']=='conflict'][0]; del r['ev'][i]
add('drop-first-conflict-event',drop_conflict)
def learn_minus(r):
    e=[e for e in r['ev'] if e['k']=='learn' and len(e['lits'])>=2][0]; e['lits']=e['lits'][:-1]; e['w']=e['w'][:-1]
add('learned-clause-loses-a-literal',learn_minus)
def prop_lit(r):
    e=[e for e in r['ev'] if e['k']=='prop'][3]; e['lit']=-e['lit']
add('propagated-literal-flipped',prop_lit)
def lvl(r):
    e=[e for e in r['ev'] if e['k']=='assign' and e['dec'] and e['lvl']>=3][0]; e['lvl']+=1
add('decision-level-off-by-one',lvl)
def status(r): r['status']='UNSAT' if r['status']=='SAT' else 'SAT'
add('reply-flipped',status)
open(T+'/mech.ndjson','w').write('\n'.join(json.dumps(r) for r in out)+'\n')
PY
mkdir $T/spec && cp spec/*.tla spec/*.cfg $T/spec/ && cd $T/spec && sed 's/@MAXN@/24/' SearchTrace.cfg > ST.cfg
VERIF_TRACE=$T/mech.ndjson VERIF_OUT=$T/verdict.json timeout 300 java -XX:+UseParallelGC -Xmx3000m -Xss256m -cp /opt/veriftools/tla/tla2tools.jar:/opt/veriftools/tla/CommunityModules-deps.jar tlc2.TLC -workers 1 -metadir $T/meta -config ST.cfg SearchTrace.tla > $T/tlc.log 2>&1 || { tail -20 $T/tlc.log; exit 2; }
python3 - $T <<'PY'
import json,sys
v=json.load(open(sys.argv[1]+'/verdict.json'))
bad={b[0]:b for b in v['bad']}
print(json.dumps(v))
want={'drop-first-conflict-event','learned-clause-loses-a-literal','propagated-literal-flipped','decision-level-off-by-one','reply-flipped'}
ok = 'intact' not in bad and want <= set(bad)
print('binding demonstration:', 'ok' if ok else 'FAILED')
sys.exit(0 if ok else 1)
PY
