#!/bin/bash
# Runs every seeded change against the quick check of its own property (in a scratch worktree) and
# writes /verif/seeded/MATRIX.md. Usage: tools/seedmatrix.sh [name-prefix]
cd /verif
OUT=seeded/MATRIX.md
echo "| seeded change | check | exit | VIOLATION lines | first clause / note |" > $OUT
echo "|---|---|---|---|---|" >> $OUT
for d in seeded/${1:-}*/; do
  n=$(basename $d)
  [ -f $d/patch.diff ] || continue
  line=$(tools/seedcheck.sh $n | tail -1)
  prop=$(echo "$line" | sed -E 's/.*check (C[0-9]+) exit.*/\1/')
  rc=$(echo "$line" | sed -E 's/.*exit ([0-9]+),.*/\1/')
  v=$(echo "$line" | sed -E 's/.*, ([0-9]+) VIOLATION.*/\1/')
  clause=$(grep -m1 'clause:' /tmp/seed_check_$prop.log | sed 's/^ *clause: //' | cut -c1-100)
  notes=$(grep -c '^NOTE' /tmp/seed_check_$prop.log)
  echo "| $n | $prop | $rc | $v | $clause (NOTE lines: $notes) |" >> $OUT
  echo "$line" | cut -c1-160
  for other in $(python3 -c "import json;print(' '.join(json.load(open('$d/meta.json')).get('also_checks',[])))"); do
    line=$(tools/seedcheck.sh $n $other | tail -1)
    rc=$(echo "$line" | sed -E 's/.*exit ([0-9]+),.*/\1/')
    v=$(echo "$line" | sed -E 's/.*, ([0-9]+) VIOLATION.*/\1/')
    clause=$(grep -m1 'clause:' /tmp/seed_check_$other.log | sed 's/^ *clause: //' | cut -c1-100)
    echo "| $n | $other (other property) | $rc | $v | $clause |" >> $OUT
    echo "$line" | cut -c1-160
  done
done
