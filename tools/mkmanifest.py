#!/usr/bin/env python3
"""Regenerates /verif/MANIFEST.json from tools/manifest_src.json (per-property texts) so that the
file always validates against /root/.vp/MANIFEST.schema.json. Run from /verif."""
import json, subprocess, sys, os
src = json.load(open('tools/manifest_src.json'))
props = [json.loads(l) for l in open('properties.jsonl')]
hook_commits = src.get('hook_commits', [])
checks = []
na = []
for p in props:
    pid = p['id']
    c = src['checks'].get(pid)
    if c is None or c.get('not_applicable'):
        na.append({"property_id": pid, "reason": (c or {}).get('reason', 'check not built yet in this revision of /verif (work in progress; see DESIGN.md section 12)')})
        continue
    checks.append({
        "property_id": pid,
        "quick_cmd": f"bin/vcheck {pid} --tier quick",
        "thorough_cmd": f"bin/vcheck {pid} --tier thorough",
        "evidence_file": f"evidence/{pid}.json",
        "replay_cmd_template": "bin/vcheck replay {path}",
        "engine": "vcheck",
        "level_claimed": {"category": "model_checking", "text": c['text'], "design_ref": c.get('design_ref', 'DESIGN.md section 6, ' + pid)},
        "level_note": c['note'],
        "technique": c['technique'],
    })
m = {
    "version": 1,
    "setup_cmd": src['setup_cmd'],
    "hooks": {
        "guard": "verif",
        "enable": "go build -tags verif (the checks rebuild harness/cmd/vdrive against /repo's working tree with this tag)",
        "baseline_off_cmd": "cd /repo && GOFLAGS=-mod=mod go test -json -vet=off -count=1 -timeout 25m ./...",
        "source_commits": hook_commits,
        "add_only": True,
    },
    "engines": src['engines'],
    "checks": checks,
    "notes": src['notes'],
    "not_applicable": na,
}
json.dump(m, open('MANIFEST.json', 'w'), indent=1)
try:
    import jsonschema
    jsonschema.validate(m, json.load(open('/root/.vp/MANIFEST.schema.json')))
    print("MANIFEST.json valid:", len(checks), "checks,", len(na), "not applicable")
except ImportError:
    print("jsonschema not importable here; run with python3-vt")
