#!/usr/bin/env python3
import json,glob,sys
from collections import Counter
pid=sys.argv[1]
rows=[]
for f in glob.glob(f'replays/{pid}-*.json'):
    r=json.load(open(f)); c=r['case']
    size=sum(len(k['lits']) for k in c.get('cons',[]))+10*len(c.get('ev',[]))
    ev=[e for e in r['trace']['ev'] if e['op'] not in ('dump',)]
    rows.append((size,f,r['clause'],r['event'],c.get('front'),c.get('n'),[(k['k'],k['lits'],k['w'],k['rhs']) for k in c.get('cons',[])], ('obj',c.get('obj'),c.get('objNilW')) if c.get('hasObj') else None, c.get('cfg',{}).get('cp'), [{k:v for k,v in e.items() if k not in('wb','stack','cert','models','before','after','certOn')} for e in ev]))
rows.sort(key=lambda r:r[0])
print(Counter((r[2],r[4]) for r in rows))
seen=set()
for r in rows:
    if (r[2],r[4]) in seen: continue
    seen.add((r[2],r[4])); print(r)
