#!/usr/bin/env python3
"""Maintains /verif/known_findings.json.
   kf.py fixed <property> <commit> <replay.json|-> <what...>   record a repaired defect (witness = the replay's case)
   kf.py open  <property> <trigger> <replay.json|-> <what...>  record an open finding"""
import json, sys, os
path = '/verif/known_findings.json'
d = json.load(open(path)) if os.path.exists(path) else {"findings": []}
kind, prop, key, rp = sys.argv[1:5]
what = ' '.join(sys.argv[5:])
wit = None
if rp != '-':
    wit = json.load(open(rp))['case']
    wit.pop('id', None)
e = {"property": prop, "status": kind, "what": what}
if kind == 'fixed':
    e["commit"] = key
else:
    e["trigger"] = key
if wit is not None:
    e["witness"] = wit
d["findings"].append(e)
json.dump(d, open(path, 'w'), indent=1)
print("recorded", kind, prop, key)
