#!/usr/bin/env python3
import json,glob,sys
from collections import Counter
pid=sys.argv[1]
rows=[]
for f in glob.glob(f'replays/{pid}-*.json'):
    r=json.load(open(f)); c=r['case']
    s=json.dumps({k:v for k,v in c.items() if k not in('id','drv','cfg')})
    ev=[{k:v for k,v in e.items() if k not in('stack','wb')} for e in r['trace']['ev']]
    rows.append((len(s),f,r['clause'],r['event'],s,json.dumps(ev)[:1500]))
rows.sort()
print(Counter(r[2] for r in rows))
seen=set()
for r in rows:
    if r[2] in seen: continue
    seen.add(r[2]); print(r[1],r[2],r[3]); print('  ',r[4]); print('  ',r[5])
