#!/bin/bash
# usage: seedcheck.sh <seeded name> [check ids...]  — apply /verif/seeded/<name>/patch.diff to /repo, run quick checks, revert
cd /verif
NAME=$1; shift
PROP=$(python3 -c "import json;print(json.load(open('seeded/$NAME/meta.json'))['property'])")
CHECKS=${@:-$PROP}
git -C /repo diff --quiet || { echo "/repo not clean"; exit 3; }
git -C /repo apply /verif/seeded/$NAME/patch.diff || exit 3
for c in $CHECKS; do
  bin/vcheck $c --tier ${TIER:-quick} > /tmp/seed_check_$c.log 2>&1; rc=$?
  v=$(grep -c '^VIOLATION' /tmp/seed_check_$c.log)
  echo "$NAME: check $c exit $rc, $v VIOLATION lines; $(grep -m1 'clause:' /tmp/seed_check_$c.log | cut -c1-140) $(grep -m1 ERROR /tmp/seed_check_$c.log | cut -c1-200)"
done
git -C /repo checkout -q -- .
