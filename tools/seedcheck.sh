#!/bin/bash
# usage: seedcheck.sh <seeded name> [check ids...]
# Applies /verif/seeded/<name>/patch.diff to a scratch worktree of /repo (never to /repo itself),
# builds the driver against it (VERIF_DEV_REPO) and runs the quick checks; removes the change afterwards.
cd /verif
NAME=$1; shift
PROP=$(python3 -c "import json;print(json.load(open('seeded/$NAME/meta.json'))['property'])")
CHECKS=${@:-$PROP}
WT=${SEED_WT:-/tmp/seed/wt1}
[ -d $WT ] || git -C /repo worktree add -q --detach $WT HEAD
git -C $WT checkout -q --detach $(git -C /repo rev-parse HEAD) 2>/dev/null
git -C $WT checkout -q -- . ; git -C $WT clean -fdq
git -C $WT apply /verif/seeded/$NAME/patch.diff || exit 3
for c in $CHECKS; do
  VERIF_DEV_REPO=$WT bin/vcheck $c --tier ${TIER:-quick} > /tmp/seed_check_$c.log 2>&1; rc=$?
  v=$(grep -c '^VIOLATION' /tmp/seed_check_$c.log)
  echo "$NAME: check $c exit $rc, $v VIOLATION lines; $(grep -m1 'clause:' /tmp/seed_check_$c.log | cut -c1-140) $(grep -m1 ERROR /tmp/seed_check_$c.log | cut -c1-200)"
done
git -C $WT checkout -q -- .
