// vcheck is the entry point of every registered check:
//
//	vcheck <Cxx> [--tier quick|thorough]     decide property Cxx on /repo's current working tree
//	vcheck replay <path>                     re-execute and re-validate a replay file
//
// Exit status: 0 the property held on everything explored; 1 a violation was found (a line
// "VIOLATION property=<id> replay=<path>" is printed); 2 the machinery could not reach a verdict.
// VERIF_SEED and VERIF_TIER are honoured. Run with /verif as the working directory.
package main

import (
	"fmt"
	"os"
	"sort"
	"strconv"

	"verifharness/internal/checks"
	"verifharness/internal/core"
)

func main() {
	root, _ := os.Getwd()
	if _, err := os.Stat(root + "/spec/Logic.tla"); err != nil {
		root = "/verif"
	}
	args := os.Args[1:]
	if len(args) == 0 {
		usage()
	}
	if args[0] == "replay" {
		if len(args) < 2 {
			usage()
		}
		os.Exit(core.Replay(root, args[1], func(id string) *core.Check { return checks.All[id] }))
	}
	if args[0] == "selftest" { // binding self-test: corrupted traces must be rejected
		ids := args[1:]
		if len(ids) == 0 {
			for id := range checks.Corruptions {
				ids = append(ids, id)
			}
			sort.Strings(ids)
		}
		code := 0
		for _, id := range ids {
			if c := core.SelfTest(root, checks.All[id], checks.Corruptions[id]); c > code {
				code = c
			}
		}
		os.Exit(code)
	}
	if args[0] == "list" {
		ids := []string{}
		for id := range checks.All {
			ids = append(ids, id)
		}
		sort.Strings(ids)
		for _, id := range ids {
			fmt.Println(id)
		}
		return
	}
	chk, ok := checks.All[args[0]]
	if !ok {
		fmt.Fprintf(os.Stderr, "unknown property %q\n", args[0])
		os.Exit(2)
	}
	tier := os.Getenv("VERIF_TIER")
	for i := 1; i < len(args); i++ {
		if args[i] == "--tier" && i+1 < len(args) {
			tier = args[i+1]
			i++
		}
	}
	if tier != "thorough" {
		tier = "quick"
	}
	seed := int64(1)
	if v := os.Getenv("VERIF_SEED"); v != "" {
		if x, err := strconv.ParseInt(v, 10, 64); err == nil {
			seed = x
		}
	}
	os.Exit(core.Run(root, chk, tier, seed))
}

func usage() {
	fmt.Fprintln(os.Stderr, "usage: vcheck <Cxx> [--tier quick|thorough] | vcheck replay <path> | vcheck list")
	os.Exit(2)
}
