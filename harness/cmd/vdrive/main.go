// vdrive executes cases on the real code. It is rebuilt from /repo's working tree (with the verif
// build tag) by every check. One case at a time; a case that exceeds its budget gets a "timeout"
// event and the process exits with status 3 (a goroutine cannot be killed), a crash outside the
// case's own goroutine kills the process: in both situations the orchestrator restarts vdrive
// after the offending case, using the progress file to find it.
package main

import (
	"bufio"
	"encoding/json"
	"flag"
	"fmt"
	"os"
	"time"

	"verifharness/internal/drive"
)

func main() {
	in := flag.String("in", "", "cases (NDJSON)")
	out := flag.String("out", "", "traces (NDJSON, appended)")
	progress := flag.String("progress", "", "progress file: index of the case being executed")
	start := flag.Int("start", 0, "index of the first case to execute")
	budget := flag.Duration("budget", 5*time.Second, "wall clock budget per case")
	flag.Parse()
	f, err := os.Open(*in)
	if err != nil {
		fmt.Fprintln(os.Stderr, "vdrive:", err)
		os.Exit(4)
	}
	defer f.Close()
	of, err := os.OpenFile(*out, os.O_APPEND|os.O_CREATE|os.O_WRONLY, 0o644)
	if err != nil {
		fmt.Fprintln(os.Stderr, "vdrive:", err)
		os.Exit(4)
	}
	w := bufio.NewWriterSize(of, 1<<20)
	sc := bufio.NewScanner(f)
	sc.Buffer(make([]byte, 1<<20), 1<<28)
	idx := -1
	for sc.Scan() {
		idx++
		if idx < *start {
			continue
		}
		var c drive.Case
		if err := json.Unmarshal(sc.Bytes(), &c); err != nil {
			fmt.Fprintf(os.Stderr, "vdrive: case %d: %v\n", idx, err)
			os.Exit(4)
		}
		name, _ := c["drv"].(string)
		d, ok := drive.Drivers[name]
		if !ok {
			fmt.Fprintf(os.Stderr, "vdrive: case %d: unknown driver %q\n", idx, name)
			os.Exit(4)
		}
		if *progress != "" {
			w.Flush()
			os.WriteFile(*progress, []byte(fmt.Sprintf("%d", idx)), 0o644)
		}
		done := make(chan drive.Case, 1)
		go func() { done <- d(c) }()
		b := *budget
		if v, ok := c["budgetMs"].(float64); ok && v > 0 {
			b = time.Duration(v) * time.Millisecond * (*budget / (5 * time.Second))
			if b < *budget {
				b = *budget
			}
		}
		select {
		case res := <-done:
			writeLine(w, res)
		case <-time.After(b):
			c["ev"] = []any{map[string]any{"op": "timeout", "budget": b.String()}}
			writeLine(w, c)
			w.Flush()
			of.Close()
			os.Exit(3)
		}
	}
	w.Flush()
	of.Close()
}

func writeLine(w *bufio.Writer, c drive.Case) {
	b, err := json.Marshal(c)
	if err != nil {
		fmt.Fprintln(os.Stderr, "vdrive: marshal:", err)
		os.Exit(4)
	}
	w.Write(b)
	w.WriteByte('\n')
}
