package exp

import (
	"math/rand"
	"testing"

	"verifharness/internal/gen"

	"github.com/crillab/gophersat/solver"
)

func TestStale(t *testing.T) {
	r := rand.New(rand.NewSource(7))
	shown := 0
	for i := 0; i < 20000 && shown < 6; i++ {
		n := 4 + r.Intn(5)
		cnf := gen.ChainCNF(r, n)
		cp := make([][]int, len(cnf))
		for j := range cnf {
			cp[j] = append([]int(nil), cnf[j]...)
		}
		pb := solver.ParseSliceNb(cp, n)
		fixed := map[int]bool{}
		for _, u := range pb.Units {
			fixed[int(u.Var())] = true
		}
		if pb.Status == solver.Unsat {
			continue
		}
		for _, c := range pb.Clauses {
			st := []int{}
			for k := 0; k < c.Len(); k++ {
				if fixed[int(c.Get(k).Var())] {
					st = append(st, k)
				}
			}
			if len(st) > 0 {
				shown++
				t.Logf("input %v units %v clause %s stale positions %v", cnf, pb.Units, c.CNF(), st)
			}
		}
	}
}
