package exp

import (
	"math/rand"
	"testing"

	"verifharness/internal/gen"

	"github.com/crillab/gophersat/solver"
)

func brute(n int, cnf [][]int) bool {
	for m := 0; m < 1<<uint(n); m++ {
		ok := true
		for _, c := range cnf {
			s := false
			for _, l := range c {
				v := l
				if v < 0 {
					v = -v
				}
				if (m>>uint(v-1)&1 == 1) == (l > 0) {
					s = true
					break
				}
			}
			if !s {
				ok = false
				break
			}
		}
		if ok {
			return true
		}
	}
	return false
}

func TestRate(t *testing.T) {
	r := rand.New(rand.NewSource(7))
	bad := 0
	stale := 0
	N := 20000
	for i := 0; i < N; i++ {
		n := 4 + r.Intn(5)
		cnf := gen.ChainCNF(r, n)
		cp := make([][]int, len(cnf))
		for j := range cnf {
			cp[j] = append([]int(nil), cnf[j]...)
		}
		pb := solver.ParseSliceNb(cp, n)
		fixed := map[int]bool{}
		for _, u := range pb.Units {
			fixed[int(u.Var())] = true
		}
		if pb.Status != solver.Unsat {
			for _, c := range pb.Clauses {
				for k := 0; k < c.Len(); k++ {
					if fixed[int(c.Get(k).Var())] {
						stale++
						k = c.Len()
					}
				}
			}
		}
		s := solver.New(pb)
		st := s.Solve()
		wrongModel := false
		if st == solver.Sat {
			m := s.Model()
			for _, c := range cnf {
				ok := false
				for _, l := range c {
					v := l
					if v < 0 {
						v = -v
					}
					if m[v-1] == (l > 0) {
						ok = true
					}
				}
				if !ok {
					wrongModel = true
				}
			}
		}
		if (st == solver.Sat) != brute(n, cnf) || wrongModel {
			bad++
			if bad < 4 {
				t.Logf("witness n=%d %v", n, cnf)
			}
		}
	}
	t.Logf("%d / %d wrong verdicts, %d stale clauses", bad, N, stale)
}
