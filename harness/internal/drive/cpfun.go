package drive

import (
	"fmt"

	"github.com/crillab/gophersat/solver"
)

func init() { Drivers["cpfun"] = CPFun }

// CPFun calls the arithmetic of the cutting-planes analysis (roundToOne, clash, SimplifyPB) through
// the add-only hooks of the solver package and records the results next to the inputs. The expected
// results are computed by TLC (CPTrace.tla, CPOps.tla), never here.
func CPFun(c Case) (out Case) {
	out = copyCase(c)
	evs := []M{}
	defer func() {
		if r := recover(); r != nil {
			evs = append(evs, crashEvent(r))
		}
		out["ev"] = evs
	}()
	for _, e := range objs(c, "ev") {
		r := copyCase(e)
		switch str(e, "op") {
		case "round":
			w, d, sg, x := ints(e, "w"), num(e, "d"), ints(e, "sigma"), num(e, "x")
			rw, rd := solver.VerifRoundToOne(w, d, sg, x-1)
			r["rw"], r["rd"] = nnInts(rw), rd
		case "clash":
			rw, rd := solver.VerifClash(ints(e, "w"), num(e, "d"), ints(e, "w2"), num(e, "d2"))
			r["rw"], r["rd"] = nnInts(rw), rd
		case "split":
			units, rl, rws, rd, ok := solver.VerifSimplifyPB(ints(e, "w"), num(e, "d"))
			r["units"], r["rlits"], r["rws"], r["rd"], r["ok"] = nnInts(units), nnInts(rl), nnInts(rws), rd, ok
		default:
			panic(fmt.Sprintf("harness: unknown cpfun op %q", str(e, "op")))
		}
		evs = append(evs, r)
	}
	return out
}
