package drive

import (
	"sync"

	"github.com/crillab/gophersat/solver"
)

func init() { Drivers["conc"] = Conc }

// Conc executes the sub-cases of a group concurrently, one goroutine each (C16). No tracer and no
// hook callback is installed while the group runs, so that the harness adds no synchronisation
// between the instances. The process is meant to be built with -race.
func Conc(c Case) (out Case) {
	out = copyCase(c)
	subs := objs(c, "subs")
	saved := solver.VerifOnNew
	solver.VerifOnNew = nil
	defer func() { solver.VerifOnNew = saved }()
	res := make([]Case, len(subs))
	var wg sync.WaitGroup
	start := make(chan struct{})
	// lanes = 0: one goroutine per sub-case. lanes = L > 0: L goroutines, goroutine j executes the sub-cases
	// j, j+L, j+2L, ... one after the other: what an instance leaves behind (in a pool, a cache, a
	// package-level variable) meets the next instance of the same goroutine and the instances of the others.
	lanes := num(c, "lanes")
	if lanes <= 0 || lanes > len(subs) {
		lanes = len(subs)
	}
	for j := 0; j < lanes; j++ {
		wg.Add(1)
		go func(j int) {
			defer wg.Done()
			<-start
			for i := j; i < len(subs); i += lanes {
				d := Drivers[str(subs[i], "drv")]
				for rep := 0; rep < 1+num(c, "repeat"); rep++ {
					res[i] = d(subs[i])
				}
			}
		}(j)
	}
	close(start)
	wg.Wait()
	out["subs"] = res
	out["ev"] = []M{{"op": "group", "size": len(subs)}}
	return out
}
