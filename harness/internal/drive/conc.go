package drive

import (
	"sync"

	"github.com/crillab/gophersat/solver"
)

func init() { Drivers["conc"] = Conc }

// Conc executes the sub-cases of a group concurrently, one goroutine each (C16). No tracer and no
// hook callback is installed while the group runs, so that the harness adds no synchronisation
// between the instances. The process is meant to be built with -race.
func Conc(c Case) (out Case) {
	out = copyCase(c)
	subs := objs(c, "subs")
	saved := solver.VerifOnNew
	solver.VerifOnNew = nil
	defer func() { solver.VerifOnNew = saved }()
	res := make([]Case, len(subs))
	var wg sync.WaitGroup
	start := make(chan struct{})
	for i, sc := range subs {
		wg.Add(1)
		go func(i int, sc Case) {
			defer wg.Done()
			<-start
			d := Drivers[str(sc, "drv")]
			for rep := 0; rep < 1+num(c, "repeat"); rep++ {
				res[i] = d(sc)
			}
		}(i, sc)
	}
	close(start)
	wg.Wait()
	out["subs"] = res
	out["ev"] = []M{{"op": "group", "size": len(subs)}}
	return out
}
