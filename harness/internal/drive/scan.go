package drive

import (
	"fmt"
	"math/rand"
	"strings"
	"time"

	"verifharness/internal/render"

	"github.com/crillab/gophersat/maxsat"
	"github.com/crillab/gophersat/solver"
)

func init() { Drivers["scan"] = Scan }

// Scan is a candidate selector, not a judge (like CPScan). It runs a large number of generated inputs
// through the real code inside the driver, several variants of each (clause order, heuristic knobs,
// entry point, order of the terms of the cost function, fresh solver versus live solver), and
// returns the few inputs on which the variants disagree with each other, on which a planted
// solution is denied, or whose reply fails a direct evaluation. What it returns are ordinary api
// cases; the orchestrator executes them again and TLC validates them against the specification:
// only that validated execution can become a verdict. A selector that is wrong loses detection
// power, it cannot create an alarm.
func Scan(c Case) (out Case) {
	out = copyCase(c)
	r := rand.New(rand.NewSource(int64(num(c, "seed"))))
	count, maxFound := num(c, "count"), num(c, "maxFound")
	if maxFound == 0 {
		maxFound = 12
	}
	sc := &scanner{r: r}
	deadline := time.Now().Add(time.Duration(num(c, "seconds")) * time.Second)
	done := 0
	for ; done < count && sc.leaked < 4 && len(sc.found) < maxFound; done++ {
		if num(c, "seconds") > 0 && time.Now().After(deadline) {
			break
		}
		switch str(c, "mode") {
		case "cnf":
			sc.cnf()
		case "pb":
			sc.pb(boolean(c, "cp"))
		case "opt":
			sc.opt(boolean(c, "cp"))
		case "assume":
			sc.assume()
		case "hist":
			sc.hist()
		case "count":
			sc.count()
		case "maxsat":
			sc.maxsat()
		case "cpunsat":
			sc.cpUnsat()
		case "opb":
			sc.opb()
		default:
			panic("harness: unknown scan mode " + str(c, "mode"))
		}
	}
	if sc.found == nil {
		sc.found = []M{}
	}
	out["ev"] = []M{{"op": "scan", "scanned": done, "found": sc.found}}
	return out
}

type scanner struct {
	r      *rand.Rand
	found  []M
	leaked int
}

// guarded runs f with a time limit; ok is false if it did not come back (the goroutine is leaked) or panicked.
func (sc *scanner) guarded(f func()) (ok bool) {
	done := make(chan bool, 1)
	go func() {
		defer func() {
			if recover() != nil {
				done <- false
			}
		}()
		f()
		done <- true
	}()
	select {
	case v := <-done:
		return v
	case <-time.After(3 * time.Second):
		sc.leaked++
		return false
	}
}

func cpClauses(cl [][]int) [][]int {
	res := make([][]int, len(cl))
	for i, c := range cl {
		res[i] = append([]int{}, c...)
	}
	return res
}

func litHolds(m []bool, l int) bool {
	if l > 0 {
		return l <= len(m) && m[l-1]
	}
	return -l <= len(m) && !m[-l-1]
}

// selector-side evaluation (never a verdict): does m satisfy sum w*lits >= rhs
func holdsGtEq(m []bool, lits, w []int, rhs int) bool {
	sum := 0
	for i, l := range lits {
		if litHolds(m, l) {
			if w == nil {
				sum++
			} else {
				sum += w[i]
			}
		}
	}
	return sum >= rhs
}

func shuffled(r *rand.Rand, cl [][]int) [][]int {
	res := cpClauses(cl)
	r.Shuffle(len(res), func(i, j int) { res[i], res[j] = res[j], res[i] })
	for _, c := range res {
		if len(c) > 1 && r.Intn(2) == 0 {
			k := r.Intn(len(c))
			c[0], c[k] = c[k], c[0]
		}
	}
	return res
}

func randClauseN(r *rand.Rand, n, k int) []int {
	if k > n {
		k = n
	}
	c := make([]int, k)
	for i, v := range r.Perm(n)[:k] {
		c[i] = v + 1
		if r.Intn(2) == 0 {
			c[i] = -c[i]
		}
	}
	return c
}

// ---- CNF: verdicts across clause orders and heuristic knobs; planted solutions -------------------

func (sc *scanner) cnf() {
	r := sc.r
	n := 10 + r.Intn(36)
	ratio := 3.8 + r.Float64()*1.5
	var planted []bool
	if r.Intn(10) < 7 {
		planted = make([]bool, n)
		for i := range planted {
			planted[i] = r.Intn(2) == 0
		}
	}
	var clauses [][]int
	target := int(ratio * float64(n))
	for len(clauses) < target {
		k := 3
		if r.Intn(8) == 0 {
			k = 2
		}
		c := randClauseN(r, n, k)
		if planted != nil {
			ok := false
			for _, l := range c {
				if litHolds(planted, l) {
					ok = true
				}
			}
			if !ok {
				continue
			}
		}
		clauses = append(clauses, c)
	}
	type variant struct {
		clauses       [][]int
		reduceAt, rst int
		st            solver.Status
		model         []bool
		ok            bool
	}
	vs := []*variant{
		{clauses: clauses},
		{clauses: clauses, reduceAt: 2 + r.Intn(5), rst: 2 + r.Intn(4)},
		{clauses: shuffled(r, clauses), reduceAt: []int{0, 3}[r.Intn(2)], rst: []int{0, 3}[r.Intn(2)]},
	}
	for _, v := range vs {
		v := v
		v.ok = sc.guarded(func() {
			s := solver.New(solver.ParseSliceNb(cpClauses(v.clauses), n))
			s.VerifSetKnobs(v.reduceAt, v.rst)
			v.st = s.Solve()
			if v.st == solver.Sat {
				v.model = append([]bool{}, s.Model()...)
			}
		})
	}
	var witness []bool
	if planted != nil {
		witness = planted
	}
	suspicious := false
	for _, v := range vs {
		if !v.ok || (v.st != solver.Sat && v.st != solver.Unsat) {
			suspicious = true
			continue
		}
		if v.st == solver.Sat {
			good := len(v.model) == n
			for _, c := range v.clauses {
				if !holdsGtEq(v.model, c, nil, 1) {
					good = false
				}
			}
			if !good {
				suspicious = true
			} else if witness == nil {
				witness = v.model
			}
		}
		if v.st != vs[0].st || (planted != nil && v.st != solver.Sat) {
			suspicious = true
		}
	}
	if !suspicious {
		return
	}
	if witness == nil {
		witness = []bool{}
	}
	for _, v := range vs {
		sc.found = append(sc.found, M{"n": n, "clauses": v.clauses, "reduceAt": v.reduceAt, "restartEvery": v.rst, "witness": witness})
	}
}

// ---- pseudo-boolean constraints: verdicts and models across constraint orders (and strategies) ----

func (sc *scanner) randPB(n int) (cons []M) {
	r := sc.r
	m := 1 + r.Intn(4)
	for j := 0; j < m; j++ {
		k := 3 + r.Intn(6)
		if k > n {
			k = n
		}
		lits := randClauseN(r, n, k)
		ws := make([]int, k)
		sum := 0
		uniform := r.Intn(3) == 0
		for x := range ws {
			ws[x] = 1
			if !uniform {
				ws[x] = 1 + r.Intn(6)
			}
			sum += ws[x]
		}
		rhs := 1 + r.Intn(sum)
		if r.Intn(3) == 0 { // low degree: not every literal is watched
			rhs = 1 + r.Intn(1+sum/3)
		}
		cons = append(cons, M{"k": "gteq", "lits": lits, "w": ws, "rhs": rhs})
	}
	for j := r.Intn(4); j > 0; j-- {
		c := randClauseN(r, n, 1+r.Intn(3))
		cons = append(cons, M{"k": "gteq", "lits": c, "w": ones(len(c)), "rhs": 1})
	}
	return cons
}

func buildPB(cons []M) *solver.Problem {
	var cs []solver.PBConstr
	for _, k := range cons {
		cs = append(cs, solver.GtEq(cp2(k["lits"].([]int)), cp2(k["w"].([]int)), k["rhs"].(int)))
	}
	return solver.ParsePBConstrs(cs)
}

func (sc *scanner) pb(cp bool) {
	r := sc.r
	n := 5 + r.Intn(8)
	cons := sc.randPB(n)
	rev := make([]M, len(cons))
	for i, k := range cons {
		rev[len(cons)-1-i] = k
	}
	type variant struct {
		cons  []M
		cp    bool
		st    solver.Status
		model []bool
		ok    bool
	}
	vs := []*variant{{cons: cons}, {cons: rev}}
	if cp {
		vs = append(vs, &variant{cons: cons, cp: true})
	}
	for _, v := range vs {
		v := v
		v.ok = sc.guarded(func() {
			s := solver.New(buildPB(v.cons))
			s.CuttingPlanes = v.cp
			v.st = s.Solve()
			if v.st == solver.Sat {
				v.model = append([]bool{}, s.Model()...)
			}
		})
	}
	suspicious := false
	for _, v := range vs {
		if !v.ok || v.st != vs[0].st {
			suspicious = true
		}
		if v.ok && v.st == solver.Sat {
			for _, k := range v.cons {
				if !holdsGtEq(v.model, k["lits"].([]int), k["w"].([]int), k["rhs"].(int)) {
					suspicious = true
				}
			}
		}
	}
	if !suspicious {
		return
	}
	for _, v := range vs {
		sc.found = append(sc.found, M{"n": n, "cons": v.cons, "cp": v.cp})
	}
}

// ---- optimisation: both entry points, the terms of the cost function in two orders ---------------

func (sc *scanner) opt(cp bool) {
	r := sc.r
	n := 4 + r.Intn(6)
	var cons []M
	for j := 1 + r.Intn(5); j > 0; j-- {
		if r.Intn(3) == 0 {
			k := 2 + r.Intn(minInt(n, 5)-1)
			lits := randClauseN(r, n, k)
			ws := make([]int, k)
			sum := 0
			for x := range ws {
				ws[x] = 1 + r.Intn(4)
				sum += ws[x]
			}
			cons = append(cons, M{"k": "gteq", "lits": lits, "w": ws, "rhs": 1 + r.Intn(sum)})
		} else {
			c := randClauseN(r, n, 2+r.Intn(2))
			if r.Intn(2) == 0 { // covering flavour: positive literals, the first model is rarely the cheapest
				for i := range c {
					if c[i] < 0 {
						c[i] = -c[i]
					}
				}
			}
			cons = append(cons, M{"k": "gteq", "lits": c, "w": ones(len(c)), "rhs": 1})
		}
	}
	k := 2 + r.Intn(n-1)
	ol, ow := make([]int, 0, k), make([]int, 0, k)
	for _, v := range r.Perm(n)[:k] {
		l := v + 1
		if r.Intn(5) == 0 {
			l = -l
		}
		ol, ow = append(ol, l), append(ow, r.Intn(8))
	}
	if r.Intn(3) == 0 {
		// stars: a centre (weight 2..3) or all of its leaves (weight 1 each) must be paid; the search improves
		// star by star, several models in a row; a few more cost variables of any weight, fixed by facts
		cons, ol, ow = nil, nil, nil
		v := 0
		for st := 2 + r.Intn(2); st > 0 && v < 9; st-- {
			v++
			c := v
			ol, ow = append(ol, c), append(ow, 2+r.Intn(2))
			for lf := 3 + r.Intn(2); lf > 0; lf-- {
				v++
				ol, ow = append(ol, v), append(ow, 1)
				cons = append(cons, M{"k": "gteq", "lits": []int{c, v}, "w": []int{1, 1}, "rhs": 1})
			}
		}
		for x := 1 + r.Intn(2); x > 0; x-- {
			v++
			ol, ow = append(ol, v), append(ow, 1+r.Intn(6))
			if r.Intn(4) > 0 {
				cons = append(cons, M{"k": "gteq", "lits": []int{-v}, "w": []int{1}, "rhs": 1})
			}
		}
		n = v
		r.Shuffle(len(ol), func(i, j int) { ol[i], ol[j] = ol[j], ol[i]; ow[i], ow[j] = ow[j], ow[i] })
	}
	for j := r.Intn(3); j > 0; j-- { // facts about cost literals (either polarity)
		l := ol[r.Intn(len(ol))]
		if r.Intn(3) == 0 {
			l = -l
		}
		cons = append(cons, M{"k": "gteq", "lits": []int{l}, "w": []int{1}, "rhs": 1})
	}
	// second order of the terms: by decreasing weight
	ol2, ow2 := append([]int{}, ol...), append([]int{}, ow...)
	for i := range ow2 {
		for j := i + 1; j < len(ow2); j++ {
			if ow2[j] > ow2[i] {
				ow2[i], ow2[j] = ow2[j], ow2[i]
				ol2[i], ol2[j] = ol2[j], ol2[i]
			}
		}
	}
	type variant struct {
		ol, ow  []int
		cp      bool
		optimal bool
		cost    int
		model   []bool
		ok      bool
	}
	vs := []*variant{{ol: ol, ow: ow}, {ol: ol2, ow: ow2}, {ol: ol, ow: ow, optimal: true}}
	if cp {
		vs = append(vs, &variant{ol: ol, ow: ow, cp: true})
	}
	skip := false
	for _, v := range vs {
		v := v
		v.ok = sc.guarded(func() {
			pb := buildPB(cons)
			lits := make([]solver.Lit, len(v.ol))
			for x, l := range v.ol {
				if l > pb.NbVars || -l > pb.NbVars {
					skip = true
					return
				}
				lits[x] = solver.IntToLit(int32(l))
			}
			pb.SetCostFunc(lits, cp2(v.ow))
			s := solver.New(pb)
			s.CuttingPlanes = v.cp
			if v.optimal {
				res := s.Optimal(nil, nil)
				v.cost = -1
				if res.Status == solver.Sat {
					v.cost, v.model = res.Weight, append([]bool{}, res.Model...)
				}
			} else {
				v.cost = s.Minimize()
				if v.cost != -1 {
					v.model = append([]bool{}, s.Model()...)
				}
			}
		})
	}
	if skip {
		return
	}
	suspicious := false
	for _, v := range vs {
		if !v.ok || v.cost != vs[0].cost {
			suspicious = true
		}
		if v.ok && v.cost != -1 {
			c := 0
			for i, l := range v.ol {
				if litHolds(v.model, l) {
					c += v.ow[i]
				}
			}
			if c != v.cost {
				suspicious = true
			}
			for _, k := range cons {
				if !holdsGtEq(v.model, k["lits"].([]int), k["w"].([]int), k["rhs"].(int)) {
					suspicious = true
				}
			}
		}
	}
	if !suspicious {
		return
	}
	for _, v := range vs {
		op := "minimize"
		if v.optimal {
			op = "optimal"
		}
		sc.found = append(sc.found, M{"n": n, "cons": cons, "obj": M{"lits": v.ol, "w": v.ow}, "cp": v.cp, "op": op})
	}
}

// ---- assumptions: rounds on one solver versus a fresh solver per round ---------------------------

func (sc *scanner) randSmallCNF(n int, units bool) [][]int {
	r := sc.r
	var clauses [][]int
	for j := int(float64(n) * (2.2 + 2*r.Float64())); j > 0; j-- {
		k := 2 + r.Intn(2)
		if units && r.Intn(9) == 0 {
			k = 1
		}
		clauses = append(clauses, randClauseN(r, n, k))
	}
	return clauses
}

func (sc *scanner) assume() {
	r := sc.r
	n := 5 + r.Intn(9)
	var clauses [][]int
	if r.Intn(3) == 0 {
		clauses = sc.randSmallCNF(n, true)
	} else { // implication chains (binary clauses) under ternary clauses near the threshold: assumptions
		// propagate several steps at the top level and the search below still meets conflicts
		for j := int(float64(n) * (0.8 + r.Float64())); j > 0; j-- {
			clauses = append(clauses, randClauseN(r, n, 2))
		}
		for j := int(float64(n) * (2.6 + 1.6*r.Float64())); j > 0; j-- {
			clauses = append(clauses, randClauseN(r, n, 3))
		}
	}
	rounds := 2 + r.Intn(5)
	asms := make([][]int, rounds)
	for i := range asms {
		asms[i] = randClauseN(r, n, r.Intn(4))
	}
	live := make([]solver.Status, rounds)
	liveModels := make([][]bool, rounds)
	okLive := sc.guarded(func() {
		s := solver.New(solver.ParseSliceNb(cpClauses(clauses), n))
		for i, a := range asms {
			lits := make([]solver.Lit, len(a))
			for x, l := range a {
				lits[x] = solver.IntToLit(int32(l))
			}
			s.Assume(lits)
			live[i] = s.Solve()
			if live[i] == solver.Sat {
				liveModels[i] = append([]bool{}, s.Model()...)
			}
		}
	})
	suspicious := !okLive
	for i, a := range asms {
		if suspicious {
			break
		}
		var fresh solver.Status
		ok := sc.guarded(func() {
			cl := cpClauses(clauses)
			for _, l := range a {
				cl = append(cl, []int{l})
			}
			fresh = solver.New(solver.ParseSliceNb(cl, n)).Solve()
		})
		if !ok || fresh != live[i] {
			suspicious = true
		}
		if live[i] == solver.Sat {
			for _, l := range a {
				if !litHolds(liveModels[i], l) {
					suspicious = true
				}
			}
			for _, c := range clauses {
				if !holdsGtEq(liveModels[i], c, nil, 1) {
					suspicious = true
				}
			}
		}
	}
	if suspicious {
		sc.found = append(sc.found, M{"n": n, "clauses": clauses, "rounds": asms})
	}
}

// ---- histories of Solve and AppendClause versus a fresh solver on the conjunction -----------------

func (sc *scanner) hist() {
	r := sc.r
	n := 3 + r.Intn(5)
	clauses := sc.randSmallCNF(n, false)
	if len(clauses) > 2*n {
		clauses = clauses[:2*n]
	}
	steps := 2 + r.Intn(5)
	var ops []M
	nv := n
	for i := 0; i < steps; i++ {
		hi := nv
		if r.Intn(4) == 0 {
			hi = nv + 1 + r.Intn(2)
		}
		k := 1 + r.Intn(3)
		c := make([]int, k)
		for x := range c { // literals drawn with replacement: repeated and complementary literals occur
			c[x] = 1 + r.Intn(hi)
			if r.Intn(2) == 0 {
				c[x] = -c[x]
			}
			if c[x] > nv {
				nv = c[x]
			}
			if -c[x] > nv {
				nv = -c[x]
			}
		}
		ops = append(ops, M{"op": "append", "lits": c})
		if r.Intn(2) == 0 || i == steps-1 {
			ops = append(ops, M{"op": "solve"})
		}
	}
	suspicious := false
	ok := sc.guarded(func() {
		s := solver.New(solver.ParseSliceNb(cpClauses(clauses), n))
		all := cpClauses(clauses)
		cur := n
		for _, o := range ops {
			if o["op"] == "append" {
				c := o["lits"].([]int)
				lits := make([]solver.Lit, len(c))
				for x, l := range c {
					lits[x] = solver.IntToLit(int32(l))
					if l > cur {
						cur = l
					}
					if -l > cur {
						cur = -l
					}
				}
				s.AppendClause(solver.NewClause(lits))
				all = append(all, append([]int{}, c...))
				continue
			}
			st := s.Solve()
			fresh := solver.New(solver.ParseSliceNb(cpClauses(all), cur)).Solve()
			if st != fresh {
				suspicious = true
			}
			if st == solver.Sat {
				m := s.Model()
				for _, c := range all {
					if !holdsGtEq(m, c, nil, 1) {
						suspicious = true
					}
				}
			}
		}
	})
	if !ok || suspicious {
		sc.found = append(sc.found, M{"n": n, "clauses": clauses, "ops": ops})
	}
}

// ---- counting: CountModels across clause orders and heuristic knobs, and Enumerate -----------------

func (sc *scanner) count() {
	r := sc.r
	n := 4 + r.Intn(9)
	var clauses [][]int
	for j := int(float64(n) * (1.5 + 2.5*r.Float64())); j > 0; j-- {
		clauses = append(clauses, randClauseN(r, n, 2+r.Intn(2)))
	}
	type variant struct {
		clauses       [][]int
		reduceAt, rst int
		enum          bool
		k             int
		ok            bool
	}
	vs := []*variant{
		{clauses: clauses},
		{clauses: clauses, reduceAt: 2 + r.Intn(4), rst: 1 + r.Intn(3)},
		{clauses: shuffled(r, clauses), rst: 1 + r.Intn(4), enum: true},
	}
	for _, v := range vs {
		v := v
		v.ok = sc.guarded(func() {
			s := solver.New(solver.ParseSliceNb(cpClauses(v.clauses), n))
			s.VerifSetKnobs(v.reduceAt, v.rst)
			if v.enum {
				v.k = s.Enumerate(nil, nil)
			} else {
				v.k = s.CountModels()
			}
		})
	}
	suspicious := false
	for _, v := range vs {
		if !v.ok || v.k != vs[0].k {
			suspicious = true
		}
	}
	if !suspicious {
		return
	}
	for _, v := range vs {
		sc.found = append(sc.found, M{"n": n, "clauses": v.clauses, "reduceAt": v.reduceAt, "restartEvery": v.rst, "enum": v.enum})
	}
}

// ---- weighted partial MaxSAT: the WCNF route in two clause orders and the constraint API ------------

func (sc *scanner) maxsat() {
	r := sc.r
	n := 2 + r.Intn(6)
	type wcl struct {
		lits   []int
		weight int // 0 = hard
	}
	var cls []wcl
	for j := r.Intn(4); j > 0; j-- {
		cls = append(cls, wcl{randClauseN(r, n, 1+r.Intn(3)), 0})
	}
	heavy := r.Intn(2) == 0
	if r.Intn(2) == 0 { // many weighted unit clauses over few variables: soft constraints that contradict each other
		n = 2 + r.Intn(3)
		cls = cls[:0]
		if r.Intn(3) == 0 {
			cls = append(cls, wcl{randClauseN(r, n, 2), 0})
		}
		heavy = true
	}
	for j := 2 + r.Intn(8); j > 0; j-- {
		w := 1 + r.Intn(3)
		if heavy {
			w = 1 + r.Intn(12)
		}
		k := 1
		if r.Intn(4) == 0 {
			k = 2 + r.Intn(2)
		}
		cls = append(cls, wcl{randClauseN(r, n, k), w})
	}
	top := 1
	for _, c := range cls {
		top += c.weight
	}
	text := func(order []int) string {
		var b strings.Builder
		fmt.Fprintf(&b, "p wcnf %d %d %d\n", n, len(cls), top)
		for _, i := range order {
			w := cls[i].weight
			if w == 0 {
				w = top
			}
			fmt.Fprintf(&b, "%d", w)
			for _, l := range cls[i].lits {
				fmt.Fprintf(&b, " %d", l)
			}
			b.WriteString(" 0\n")
		}
		return b.String()
	}
	id := make([]int, len(cls))
	for i := range id {
		id[i] = i
	}
	costs := []int{}
	okAll := true
	for _, order := range [][]int{id, r.Perm(len(cls))} {
		order := order
		cost := -2
		ok := sc.guarded(func() {
			s, err := maxsat.ParseWCNF(strings.NewReader(text(order)))
			if err != nil {
				return
			}
			res := s.Optimal(nil, nil)
			cost = -1
			if res.Status == solver.Sat {
				cost = res.Weight
			}
		})
		okAll = okAll && ok
		costs = append(costs, cost)
	}
	for rep := 0; rep < 2; rep++ { // the constraint API orders its cost literals by map iteration: twice
		cost := -2
		ok := sc.guarded(func() {
			var cs []maxsat.Constr
			for _, c := range cls {
				lits := make([]maxsat.Lit, len(c.lits))
				for i, l := range c.lits {
					if l < 0 {
						lits[i] = maxsat.Not(fmt.Sprintf("v%d", -l))
					} else {
						lits[i] = maxsat.Var(fmt.Sprintf("v%d", l))
					}
				}
				switch {
				case c.weight == 0:
					cs = append(cs, maxsat.HardClause(lits...))
				case c.weight == 1:
					cs = append(cs, maxsat.SoftClause(lits...))
				default:
					cs = append(cs, maxsat.WeightedClause(lits, c.weight))
				}
			}
			model, c := maxsat.New(cs...).Solve()
			cost = c
			if model == nil {
				cost = -1
			}
		})
		okAll = okAll && ok
		costs = append(costs, cost)
	}
	suspicious := !okAll
	for _, c := range costs {
		if c != costs[0] {
			suspicious = true
		}
	}
	if !suspicious {
		return
	}
	cons := make([]M, len(cls))
	for i, c := range cls {
		cons[i] = M{"k": "clause", "lits": c.lits, "w": ones(len(c.lits)), "rhs": 1, "weight": c.weight}
	}
	sc.found = append(sc.found, M{"n": n, "cons": cons, "top": top})
}

// ---- PB problems that the cutting-planes strategy refutes by search (members of C16 groups) ---------
// (a selection by behaviour: such runs end in the rarely taken exits of the analysis)

func (sc *scanner) cpUnsat() {
	r := sc.r
	n := 8 + r.Intn(6)
	var cons []M
	for j := 2 + r.Intn(3); j > 0; j-- {
		k := 3 + r.Intn(n-3)
		lits := randClauseN(r, n, k)
		ws := make([]int, k)
		sum := 0
		for x := range ws {
			ws[x] = 1 + r.Intn(5)
			sum += ws[x]
		}
		cons = append(cons, M{"k": "gteq", "lits": lits, "w": ws, "rhs": sum/2 + r.Intn(1+sum/2)})
	}
	var st solver.Status
	indet := false
	ok := sc.guarded(func() {
		pb := buildPB(cons)
		indet = pb.Status == solver.Indet
		s := solver.New(pb)
		s.CuttingPlanes = true
		st = s.Solve()
	})
	if ok && indet && st == solver.Unsat {
		sc.found = append(sc.found, M{"n": n, "cons": cons, "cp": true})
	}
}

// ---- OPB texts: relations >= and =, coefficients of both signs; the parsed problem is SOLVED ---------

func (sc *scanner) opb() {
	r := sc.r
	n := 3 + r.Intn(7)
	var cons []M
	for j := 1 + r.Intn(4); j > 0; j-- {
		k := 2 + r.Intn(minInt(n, 5)-1)
		lits := randClauseN(r, n, k)
		ws := make([]int, k)
		lo, hi := 0, 0
		for x := range ws {
			ws[x] = 1 + r.Intn(4)
			if r.Intn(3) == 0 {
				ws[x] = -ws[x]
			}
			if ws[x] > 0 {
				hi += ws[x]
			} else {
				lo += ws[x]
			}
		}
		kind := []string{"gteq", "eq", "eq"}[r.Intn(3)]
		cons = append(cons, M{"k": kind, "lits": lits, "w": ws, "rhs": lo + r.Intn(hi-lo+1)})
	}
	rev := make([]M, len(cons))
	for i, k := range cons {
		rev[len(cons)-1-i] = k
	}
	holds := func(m []bool, k M) bool {
		sum := 0
		for i, l := range k["lits"].([]int) {
			if litHolds(m, l) {
				sum += k["w"].([]int)[i]
			}
		}
		if k["k"] == "eq" {
			return sum == k["rhs"].(int)
		}
		return sum >= k["rhs"].(int)
	}
	type variant struct {
		cons  []M
		st    solver.Status
		model []bool
		ok    bool
	}
	vs := []*variant{{cons: cons}, {cons: rev}}
	for _, v := range vs {
		v := v
		v.ok = sc.guarded(func() {
			lins := make([]render.Lin, len(v.cons))
			for i, k := range v.cons {
				lits, ws := k["lits"].([]int), k["w"].([]int)
				terms := make([]render.Term, len(lits))
				for x := range lits {
					terms[x] = render.Term{W: ws[x], Lit: lits[x]}
				}
				rel := ">="
				if k["k"] == "eq" {
					rel = "="
				}
				lins[i] = render.Lin{Terms: terms, Rel: rel, Rhs: k["rhs"].(int)}
			}
			pb, err := solver.ParseOPB(strings.NewReader(render.OPB(n, false, nil, lins, render.NewLayout(0, 0))))
			if err != nil {
				panic(err)
			}
			s := solver.New(pb)
			v.st = s.Solve()
			if v.st == solver.Sat {
				v.model = append([]bool{}, s.Model()...)
			}
		})
	}
	suspicious := false
	for _, v := range vs {
		if !v.ok || v.st != vs[0].st {
			suspicious = true
		}
		if v.ok && v.st == solver.Sat {
			for _, k := range v.cons {
				if !holds(v.model, k) {
					suspicious = true
				}
			}
		}
	}
	if !suspicious {
		return
	}
	for _, v := range vs {
		sc.found = append(sc.found, M{"n": n, "cons": v.cons})
	}
}
