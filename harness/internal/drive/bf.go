package drive

import (
	"bytes"
	"fmt"
	"math/rand"
	"sort"
	"strconv"
	"strings"

	"github.com/crillab/gophersat/bf"
)

func init() { Drivers["bf"] = BF }

func names(c M) []string {
	l := list(c, "names")
	res := make([]string, len(l))
	for i, x := range l {
		res[i], _ = x.(string)
	}
	return res
}

// buildFormula builds a bf.Formula from the abstract syntax tree through the public constructors.
func buildFormula(f M, nm []string) bf.Formula {
	kids := objs(f, "kids")
	sub := make([]bf.Formula, len(kids))
	op := str(f, "op")
	if op != "uniq" {
		for i, k := range kids {
			sub[i] = buildFormula(k, nm)
		}
	}
	switch op {
	case "v":
		return bf.Var(nm[num(f, "i")-1])
	case "T":
		return bf.True
	case "F":
		return bf.False
	case "not":
		return bf.Not(sub[0])
	case "and":
		return bf.And(sub...)
	case "or":
		return bf.Or(sub...)
	case "imp":
		return bf.Implies(sub[0], sub[1])
	case "eq":
		return bf.Eq(sub[0], sub[1])
	case "xor":
		return bf.Xor(sub[0], sub[1])
	case "uniq":
		vs := make([]string, len(kids))
		for i, k := range kids {
			vs[i] = nm[num(k, "i")-1]
		}
		return bf.Unique(vs...)
	}
	panic("harness: unknown formula node " + op)
}

func idxOf(nm []string, s string) int {
	for i, x := range nm {
		if x == s {
			return i + 1
		}
	}
	return 0
}

// astOfString converts the output of Formula.String() (prefix notation and(x, y), or(...), not(x),
// names, ⊤, ⊥) into the abstract syntax tree.
type strParser struct {
	s       []rune
	pos     int
	nm      []string
	foreign bool
}

func (p *strParser) ws() {
	for p.pos < len(p.s) && (p.s[p.pos] == ' ' || p.s[p.pos] == ',') {
		p.pos++
	}
}

func (p *strParser) parse() M {
	p.ws()
	start := p.pos
	for p.pos < len(p.s) && p.s[p.pos] != '(' && p.s[p.pos] != ')' && p.s[p.pos] != ',' {
		p.pos++
	}
	word := strings.TrimSpace(string(p.s[start:p.pos]))
	if p.pos < len(p.s) && p.s[p.pos] == '(' && (word == "and" || word == "or" || word == "not") {
		p.pos++
		kids := []M{}
		for {
			p.ws()
			if p.pos >= len(p.s) {
				panic("harness: unbalanced formula string")
			}
			if p.s[p.pos] == ')' {
				p.pos++
				break
			}
			before := p.pos
			kids = append(kids, p.parse())
			if p.pos == before { // a name the printer cannot delimit (e.g. a parenthesis): give up on it
				p.foreign = true
				p.pos++
			}
		}
		return M{"op": word, "i": 0, "kids": kids}
	}
	switch word {
	case "⊤":
		return M{"op": "T", "i": 0, "kids": []M{}}
	case "⊥":
		return M{"op": "F", "i": 0, "kids": []M{}}
	}
	i := idxOf(p.nm, word)
	if i == 0 {
		p.foreign = true
		i = 1
	}
	return M{"op": "v", "i": i, "kids": []M{}}
}

func depthOf(a M) int {
	d := 0
	for _, k := range a["kids"].([]M) {
		if x := depthOf(k); x > d {
			d = x
		}
	}
	return d + 1
}

func flatten(a M, out *[]M) {
	kids := a["kids"].([]M)
	for _, k := range kids {
		flatten(k, out)
	}
	*out = append(*out, M{"op": a["op"], "i": a["i"], "n": len(kids)})
}

func renderTokens(toks []string, r *rand.Rand, level int) string {
	var b strings.Builder
	for i, t := range toks {
		if i > 0 {
			prev := toks[i-1]
			needSpace := isWord(prev) && isWord(t)
			switch {
			case level == 0 || needSpace:
				b.WriteString(" ")
			default:
				b.WriteString(strings.Repeat(" ", r.Intn(3)))
				if r.Intn(12) == 0 {
					b.WriteString("\n")
				}
			}
		}
		b.WriteString(t)
	}
	if level > 0 && r.Intn(3) == 0 {
		b.WriteString(" ")
	}
	return b.String()
}

func isWord(t string) bool {
	if t == "" {
		return false
	}
	c := t[0]
	return c == '_' || (c >= 'a' && c <= 'z') || (c >= 'A' && c <= 'Z') || (c >= '0' && c <= '9')
}

// BF executes a bf case.
func BF(c Case) (out Case) {
	out = copyCase(c)
	evs := []M{}
	defer func() {
		if r := recover(); r != nil {
			evs = append(evs, crashEvent(r))
		}
		out["ev"] = evs
	}()
	nm := names(c)
	var f bf.Formula
	if boolean(c, "hasF") {
		f = buildFormula(obj(c, "f"), nm)
	}
	for _, e := range objs(c, "ev") {
		r := copyCase(e)
		switch str(e, "op") {
		case "solve":
			g := f
			if boolean(e, "neg") { // the negation of the SAME formula value (whatever earlier calls left in it shows)
				g = bf.Not(f)
			}
			model := bf.Solve(g)
			r["isNil"] = model == nil
			dom, val := []int{}, []bool{}
			keys := make([]string, 0, len(model))
			for k := range model {
				keys = append(keys, k)
			}
			sort.Strings(keys)
			for _, k := range keys {
				dom = append(dom, idxOf(nm, k))
				val = append(val, model[k])
			}
			r["dom"], r["val"] = dom, val
		case "dimacs":
			var buf bytes.Buffer
			g := f
			if boolean(e, "neg") {
				g = bf.Not(f)
			}
			err := bf.Dimacs(g, &buf)
			r["err"] = err != nil
			r["text"] = buf.String()
			hv, hc := -1, -1
			mp := [][]int{}
			cls := [][]int{}
			for _, line := range strings.Split(buf.String(), "\n") {
				fields := strings.Fields(line)
				switch {
				case len(fields) == 0 && line == "":
					continue
				case len(fields) >= 4 && fields[0] == "p":
					hv, _ = strconv.Atoi(fields[2])
					hc, _ = strconv.Atoi(fields[3])
				case len(fields) >= 1 && fields[0] == "c":
					rest := strings.TrimSpace(strings.TrimPrefix(strings.TrimSpace(line), "c"))
					if k := strings.LastIndex(rest, "="); k > 0 {
						idx, err := strconv.Atoi(rest[k+1:])
						if err != nil {
							idx = -1
						}
						mp = append(mp, []int{idxOf(nm, rest[:k]), idx})
					}
				default: // a clause line (possibly blank: the empty clause is written as " 0")
					cl := []int{}
					bad := false
					for i, t := range fields {
						v, err := strconv.Atoi(t)
						if err != nil {
							bad = true
							cl = append(cl, 0)
							continue
						}
						if v == 0 && i == len(fields)-1 {
							break
						}
						cl = append(cl, v)
					}
					if len(fields) == 0 || fields[len(fields)-1] != "0" {
						bad = true
					}
					if bad {
						cl = append(cl, 0) // no terminator / junk: a 0 inside a clause is rejected by the spec
					}
					cls = append(cls, cl)
				}
			}
			r["hdrVars"], r["hdrClauses"], r["map"], r["clauses"] = hv, hc, mp, cls
		case "parse":
			toks := []string{}
			for _, t := range list(e, "tokens") {
				s, _ := t.(string)
				toks = append(toks, s)
			}
			text := renderTokens(toks, rand.New(rand.NewSource(int64(num(e, "seed")))), num(e, "layout"))
			r["text"] = text
			r["panic"], r["err"], r["nilFormula"], r["foreign"] = false, false, true, false
			r["ast"] = M{"op": "F", "i": 0, "kids": []M{}}
			r["flat"], r["useFlat"] = []M{}, false
			r["str"] = ""
			func() {
				defer func() {
					if x := recover(); x != nil {
						r["panic"] = true
						r["msg"] = fmt.Sprint(x)
					}
				}()
				pf, err := bf.Parse(strings.NewReader(text))
				r["err"] = err != nil
				r["nilFormula"] = pf == nil
				if err == nil && pf != nil {
					s := pf.String()
					r["str"] = s
					p := &strParser{s: []rune(s), nm: nm}
					ast := p.parse()
					r["ast"] = ast
					r["foreign"] = p.foreign
					if depthOf(ast) > 100 {
						// the JSON reader of the trace specification stops at 255 levels of nesting: a deep tree is
						// handed over in post-order (operator, variable index, number of operands), a flat list
						flat := []M{}
						flatten(ast, &flat)
						r["flat"], r["useFlat"] = flat, true
						r["ast"] = M{"op": "F", "i": 0, "kids": []M{}}
					}
				}
			}()
		default:
			panic("harness: unknown bf op")
		}
		evs = append(evs, r)
	}
	return out
}
