// Package drive executes cases on the real gophersat code (the tree in /repo, built with the
// verif tag) and records what happened as a trace that a TLA+ trace specification validates.
// Drivers compute no expected values: they call the public API and write down the replies.
package drive

import (
	"encoding/json"
	"fmt"
	"io"
	"runtime/debug"
	"strings"
	"testing/iotest"
)

// A Case is the JSON object describing one input (and, once executed, its recorded trace).
type Case = map[string]any

// M is a shorthand for JSON objects.
type M = map[string]any

// A Driver executes a case and returns its trace.
type Driver func(c Case) Case

// Drivers is the registry used by cmd/vdrive.
var Drivers = map[string]Driver{}

func str(c M, k string) string {
	if v, ok := c[k].(string); ok {
		return v
	}
	return ""
}

func num(c M, k string) int {
	switch v := c[k].(type) {
	case float64:
		return int(v)
	case int:
		return v
	case json.Number:
		i, _ := v.Int64()
		return int(i)
	}
	return 0
}

func boolean(c M, k string) bool {
	v, _ := c[k].(bool)
	return v
}

func obj(c M, k string) M {
	if v, ok := c[k].(map[string]any); ok {
		return v
	}
	return M{}
}

func list(c M, k string) []any {
	if v, ok := c[k].([]any); ok {
		return v
	}
	return nil
}

func ints(c M, k string) []int {
	l := list(c, k)
	res := make([]int, len(l))
	for i, v := range l {
		switch x := v.(type) {
		case float64:
			res[i] = int(x)
		case int:
			res[i] = x
		}
	}
	return res
}

func intsOf(v any) []int {
	l, _ := v.([]any)
	res := make([]int, len(l))
	for i, x := range l {
		if f, ok := x.(float64); ok {
			res[i] = int(f)
		}
	}
	return res
}

func objs(c M, k string) []M {
	l := list(c, k)
	res := make([]M, 0, len(l))
	for _, v := range l {
		if m, ok := v.(map[string]any); ok {
			res = append(res, m)
		}
	}
	return res
}

// nn makes sure slices are encoded as [] and never as null (TLC's JSON reader needs sequences).
func nnInts(s []int) []int {
	if s == nil {
		return []int{}
	}
	return s
}

func nnBools(s []bool) []bool {
	if s == nil {
		return []bool{}
	}
	return s
}

func crashEvent(r any) M {
	stack := string(debug.Stack())
	lines := strings.Split(stack, "\n")
	if len(lines) > 24 {
		lines = lines[:24]
	}
	return M{"op": "crash", "msg": fmt.Sprint(r), "stack": strings.Join(lines, "\n")}
}

func copyCase(c Case) Case {
	res := Case{}
	for k, v := range c {
		res[k] = v
	}
	return res
}

func ones(k int) []int {
	w := make([]int, k)
	for i := range w {
		w[i] = 1
	}
	return w
}

// readerOf delivers a text through one of the standard reader behaviours an io.Reader may show:
// 0 everything at once, 1 one byte per Read, 2 half of what is asked, 3 the last data together with
// io.EOF. The parsers take an io.Reader: what they read must not depend on how it is delivered.
func readerOf(text string, kind int) io.Reader {
	r := io.Reader(strings.NewReader(text))
	switch kind {
	case 1:
		return iotest.OneByteReader(r)
	case 2:
		return iotest.HalfReader(r)
	case 3:
		return iotest.DataErrReader(r)
	}
	return r
}
