package drive

import (
	"bytes"
	"context"
	"math/rand"
	"os"
	"os/exec"
	"path/filepath"
	"strconv"
	"strings"
	"time"

	"verifharness/internal/render"
)

func init() { Drivers["cli"] = CLI }

// CLI executes the gophersat executable (built from /repo by the orchestrator, path in
// VERIF_GOPHERSAT) on a generated file and tokenises what it prints.
func CLI(c Case) (out Case) {
	out = copyCase(c)
	evs := []M{}
	defer func() {
		if r := recover(); r != nil {
			evs = append(evs, crashEvent(r))
		}
		out["ev"] = evs
	}()
	if _, ok := c["sfx"]; !ok { // cases recorded before the configuration fields existed (witnesses of fixed findings)
		sfx, st := str(c, "kind"), "wellformed"
		if sfx == "bad" {
			sfx = strings.TrimPrefix(str(c, "ext"), ".")
			switch {
			case boolean(c, "missing"):
				st = "missing"
			case sfx != "txt":
				st = "malformed"
			}
		}
		out["sfx"], out["st"] = sfx, st
	}
	bin := os.Getenv("VERIF_GOPHERSAT")
	if bin == "" {
		panic("harness: VERIF_GOPHERSAT not set")
	}
	dir, err := os.MkdirTemp("", "vcli-")
	if err != nil {
		panic(err)
	}
	defer os.RemoveAll(dir)
	cons := objs(c, "cons")
	n := num(c, "n")
	cfg := obj(c, "cfg")
	layout := render.NewLayout(num(cfg, "layout"), int64(num(cfg, "layoutSeed")))
	kind := str(c, "kind")
	var text, ext string
	switch kind {
	case "cnf":
		cl := make([][]int, len(cons))
		for i, k := range cons {
			cl[i] = clauseLits(k)
		}
		text, ext = render.DIMACS(n, cl, layout), ".cnf"
	case "opb":
		lins := make([]render.Lin, len(cons))
		for i, k := range cons {
			lins[i] = asLin(k)
		}
		o := obj(c, "obj")
		ol, ow := ints(o, "lits"), ints(o, "w")
		terms := make([]render.Term, len(ol))
		for i := range ol {
			terms[i] = render.Term{W: ow[i], Lit: ol[i]}
		}
		text, ext = render.OPB(n, boolean(c, "hasObj"), terms, lins, layout), ".opb"
	case "wcnf":
		var wc []render.WClause
		for _, k := range cons {
			w := num(k, "weight")
			wc = append(wc, render.WClause{Hard: w == 0, Weight: w, Lits: ints(k, "lits")})
		}
		text, ext = render.WCNF(n, num(c, "top"), wc, layout), ".wcnf"
	case "bf":
		toks := []string{}
		for _, t := range list(c, "tokens") {
			s, _ := t.(string)
			toks = append(toks, s)
		}
		text, ext = renderTokens(toks, rand.New(rand.NewSource(int64(num(cfg, "layoutSeed")))), num(cfg, "layout")), ".bf"
	case "bad":
		text, ext = str(c, "text"), str(c, "ext")
	}
	path := filepath.Join(dir, "input"+ext)
	if !boolean(c, "missing") {
		if err := os.WriteFile(path, []byte(text), 0o644); err != nil {
			panic(err)
		}
	}
	out["text"] = text
	args := []string{}
	for _, f := range list(c, "flags") {
		s, _ := f.(string)
		args = append(args, s)
	}
	args = append(args, path)
	for range objs(c, "ev") {
		ctx, cancel := context.WithTimeout(context.Background(), 20*time.Second)
		cmd := exec.CommandContext(ctx, bin, args...)
		var so, se bytes.Buffer
		cmd.Stdout, cmd.Stderr = &so, &se
		err := cmd.Run()
		timedOut := ctx.Err() == context.DeadlineExceeded
		cancel()
		if timedOut {
			evs = append(evs, M{"op": "timeout", "budget": "20s"})
			continue
		}
		exit := 0
		if err != nil {
			if ee, ok := err.(*exec.ExitError); ok {
				exit = ee.ExitCode()
			} else {
				panic(err)
			}
		}
		r := M{"op": "run", "exit": exit, "stdout": so.String(), "stderr": tail2(se.String(), 1500)}
		tokeniseOutput(r, so.String(), names(c), kind)
		evs = append(evs, r)
	}
	return out
}

func tail2(s string, n int) string {
	if len(s) > n {
		return s[len(s)-n:]
	}
	return s
}

// tokeniseOutput turns standard output into answer records. Lines the grammar does not know are skipped.
func tokeniseOutput(r M, so string, nm []string, kind string) {
	nS, s := 0, ""
	hasV, v := false, []int{}
	o := []int{}
	count := -1
	cert := [][]int{}
	hasMus := false
	mus := M{"n": 0, "nb": 0, "clauses": [][]int{}}
	dom, val := []int{}, []bool{}
	inMus := false
	musClauses := [][]int{}
	for _, line := range strings.Split(so, "\n") {
		f := strings.Fields(line)
		if len(f) == 0 {
			continue
		}
		if inMus {
			cl, ok := intLine(f)
			if ok {
				musClauses = append(musClauses, cl)
			}
			continue
		}
		switch {
		case f[0] == "c":
			continue
		case f[0] == "s":
			nS++
			s = strings.Join(f[1:], " ")
		case kind == "bf" && (line == "SATISFIABLE" || line == "UNSATISFIABLE"):
			nS++
			s = line
		case f[0] == "v":
			hasV = true
			for _, t := range f[1:] {
				t = strings.Replace(t, "x", "", 1)
				x, err := strconv.Atoi(t)
				if err != nil {
					v = append(v, 0)
					continue
				}
				if x != 0 {
					v = append(v, x)
				}
			}
		case f[0] == "o" && len(f) == 2:
			if x, err := strconv.Atoi(f[1]); err == nil {
				o = append(o, x)
			}
		case f[0] == "p" && len(f) >= 4 && f[1] == "cnf":
			hasMus, inMus = true, true
			mus["n"], _ = strconv.Atoi(f[2])
			mus["nb"], _ = strconv.Atoi(f[3])
		case kind == "bf" && len(f) == 2 && strings.HasSuffix(f[0], ":"):
			dom = append(dom, idxOf(nm, strings.TrimSuffix(f[0], ":")))
			val = append(val, f[1] == "true")
		default:
			if cl, ok := intLine(f); ok {
				if len(f) == 1 && count == -1 && kind != "bf" {
					count, _ = strconv.Atoi(f[0])
				}
				cert = append(cert, cl)
			}
		}
	}
	mus["clauses"] = musClauses
	r["nS"], r["s"], r["hasV"], r["v"], r["o"], r["count"], r["cert"] = nS, s, hasV, v, o, count, cert
	r["hasMus"], r["mus"], r["dom"], r["val"] = hasMus, mus, dom, val
}

// intLine parses "l1 l2 ... 0" (the terminator is dropped); ok is false if a token is not an integer.
func intLine(f []string) ([]int, bool) {
	res := []int{}
	for i, t := range f {
		x, err := strconv.Atoi(t)
		if err != nil {
			return nil, false
		}
		if x == 0 && i == len(f)-1 {
			break
		}
		res = append(res, x)
	}
	return res, true
}
