package drive

import (
	"sync"
	"time"

	"verifharness/internal/sched"

	"github.com/crillab/gophersat/solver"
)

func init() { Drivers["iso"] = Iso }

type isoResult struct {
	Verdict string
	Learned [][]int
	Gates   int
}

func isoRun(clauses [][]int, n int, gate func(string)) isoResult {
	cl := make([][]int, len(clauses))
	for i, c := range clauses {
		cl[i] = append([]int(nil), c...)
	}
	pb := solver.ParseSliceNb(cl, n)
	s := solver.New(pb)
	var res isoResult
	var mu sync.Mutex
	s.VerifSetTrace(func(ev solver.VerifEvent) {
		if ev.K == "learn" {
			mu.Lock()
			res.Learned = append(res.Learned, nnInts(append([]int(nil), ev.Lits...)))
			mu.Unlock()
		}
	})
	if gate != nil {
		s.VerifSetGate(func(p string) {
			if p == "learn.scratch" {
				mu.Lock()
				res.Gates++
				mu.Unlock()
			}
			gate(p)
		})
	} else {
		s.VerifSetGate(func(p string) {
			if p == "learn.scratch" {
				res.Gates++
			}
		})
	}
	res.Verdict = s.Solve().String()
	if res.Learned == nil {
		res.Learned = [][]int{}
	}
	return res
}

// Iso replays an interleaving of the conflict analyses of independent solvers (spec/Isolation.tla)
// through the learn.scratch gate and records what each instance learned, next to its solo run.
func Iso(c Case) (out Case) {
	out = copyCase(c)
	evs := []M{}
	defer func() {
		if r := recover(); r != nil {
			evs = append(evs, crashEvent(r))
		}
		out["ev"] = evs
	}()
	saved := solver.VerifOnNew
	solver.VerifOnNew = nil
	defer func() { solver.VerifOnNew = saved }()
	probs := objs(c, "problems")
	k := len(probs)
	need := num(c, "c")
	solo := make([]isoResult, k)
	for i, p := range probs {
		solo[i] = isoRun(clausesOf(p, "clauses"), num(p, "n"), nil)
		if solo[i].Gates < need {
			evs = append(evs, M{"op": "skip", "why": "an instance has fewer conflicts than the schedule needs", "conflicts": solo[i].Gates})
			return out
		}
	}
	names := make([]string, k)
	for i := range names {
		names[i] = string(rune('1' + i))
	}
	ctl := sched.New(names...)
	conc := make([]isoResult, k)
	done := make([]bool, k)
	var mu sync.Mutex
	var wg sync.WaitGroup
	for i, p := range probs {
		wg.Add(1)
		go func(i int, p M) {
			defer wg.Done()
			r := isoRun(clausesOf(p, "clauses"), num(p, "n"), ctl.Hook(names[i], "learn."))
			mu.Lock()
			conc[i], done[i] = r, true
			mu.Unlock()
		}(i, p)
	}
	waitGate := func(i, want int) bool { // instance i reached its want-th gate, or finished
		until := time.Now().Add(3 * time.Second)
		for time.Now().Before(until) {
			mu.Lock()
			d := done[i]
			mu.Unlock()
			if d || ctl.Arrived(names[i]) >= want {
				return true
			}
			time.Sleep(50 * time.Microsecond)
		}
		return false
	}
	ok := true
	for i := range probs {
		ok = ok && waitGate(i, 1)
	}
	passed := make([]int, k)
	for _, t := range ints(c, "sched") {
		i := t - 1
		if !ok {
			break
		}
		if err := ctl.Release(names[i], 2*time.Second); err != nil {
			ok = false
			break
		}
		passed[i]++
		ok = waitGate(i, passed[i]+1)
	}
	ctl.Drain()
	fin := make(chan struct{})
	go func() { wg.Wait(); close(fin) }()
	select {
	case <-fin:
	case <-time.After(20 * time.Second):
		evs = append(evs, M{"op": "timeout", "budget": "20s"})
		return out
	}
	rec := func(rs []isoResult) []M {
		res := make([]M, len(rs))
		for i, r := range rs {
			res[i] = M{"verdict": r.Verdict, "learned": r.Learned}
		}
		return res
	}
	evs = append(evs, M{"op": "iso", "scheduleFollowed": ok, "solo": rec(solo), "conc": rec(conc)})
	return out
}
