package drive

import (
	"strings"
	"sync"
	"time"

	"verifharness/internal/render"
	"verifharness/internal/sched"

	"github.com/crillab/gophersat/maxsat"
	"github.com/crillab/gophersat/solver"
)

func init() { Drivers["stream"] = Stream }

// streamRun is one execution of the call under test, with or without a gate controller.
type streamRun struct {
	mu       sync.Mutex
	nrecv    int
	saw      bool
	returned bool
	recvBusy bool
	recvFn   func() bool // performs one receive; true if a value arrived, false if the channel was closed
	start    func()      // starts the call in its own goroutine
}

func (r *streamRun) obs(m int) M {
	r.mu.Lock()
	defer r.mu.Unlock()
	ret := 0
	if r.returned {
		ret = m
	}
	return M{"nrecv": r.nrecv, "saw": r.saw, "ret": ret, "panic": false}
}

// newStreamRun builds the problem of the case and prepares the call; ctl may be nil (free run).
func newStreamRun(c Case, ctl *sched.Ctl) *streamRun {
	r := &streamRun{}
	capacity := num(c, "cap")
	kind := str(c, "kind")
	gateP := func(string) {}
	if ctl != nil {
		gateP = ctl.Hook("p", "optimal.", "enum.")
	}
	switch kind {
	case "optimal", "enum":
		pc := copyCase(c)
		pc["drv"] = "api"
		pb, _, err := BuildProblem(pc)
		if err != nil {
			panic("harness: cannot build the stream problem: " + err.Error())
		}
		s := solver.New(pb)
		s.VerifSetGate(gateP)
		if kind == "optimal" {
			ch := make(chan solver.Result, capacity)
			r.recvFn = func() bool { _, ok := <-ch; return ok }
			r.start = func() {
				go func() {
					s.Optimal(ch, nil)
					r.mu.Lock()
					r.returned = true
					r.mu.Unlock()
				}()
			}
		} else {
			ch := make(chan []bool, capacity)
			r.recvFn = func() bool { _, ok := <-ch; return ok }
			r.start = func() {
				go func() {
					s.Enumerate(ch, nil)
					r.mu.Lock()
					r.returned = true
					r.mu.Unlock()
				}()
			}
		}
	case "maxsat":
		var wc []render.WClause
		for _, k := range objs(c, "cons") {
			w := num(k, "weight")
			wc = append(wc, render.WClause{Hard: w == 0, Weight: w, Lits: ints(k, "lits")})
		}
		text := render.WCNF(num(c, "n"), num(c, "top"), wc, render.NewLayout(0, 0))
		saved := solver.VerifOnNew
		solver.VerifOnNew = func(s *solver.Solver, pb *solver.Problem) { s.VerifSetGate(gateP) }
		ms, err := maxsat.ParseWCNF(strings.NewReader(text))
		solver.VerifOnNew = saved
		if err != nil {
			panic("harness: ParseWCNF: " + err.Error())
		}
		if ctl != nil {
			maxsat.VerifGate = ctl.Hook("f", "maxsat.")
		} else {
			maxsat.VerifGate = nil
		}
		ch := make(chan solver.Result, capacity)
		r.recvFn = func() bool { _, ok := <-ch; return ok }
		r.start = func() {
			go func() {
				ms.Optimal(ch, nil)
				r.mu.Lock()
				r.returned = true
				r.mu.Unlock()
			}()
		}
	default:
		panic("harness: unknown stream kind " + kind)
	}
	return r
}

func (r *streamRun) receiveAsync() {
	r.mu.Lock()
	r.recvBusy = true
	r.mu.Unlock()
	go func() {
		ok := r.recvFn()
		r.mu.Lock()
		if ok {
			r.nrecv++
		} else {
			r.saw = true
		}
		r.recvBusy = false
		r.mu.Unlock()
	}()
}

func sameObs(a M, e M) bool {
	return a["nrecv"] == num(e, "nrecv") && a["saw"] == boolean(e, "saw") && a["ret"] == num(e, "ret")
}

// Stream replays one schedule enumerated by TLC (spec/Stream.tla) on the real code through the
// scheduler gates, and records the observable state after each token.
func Stream(c Case) (out Case) {
	out = copyCase(c)
	evs := []M{}
	defer func() {
		maxsat.VerifGate = nil
		if r := recover(); r != nil {
			evs = append(evs, crashEvent(r))
		}
		out["ev"] = evs
	}()
	m := num(c, "m")
	// free run: how many results does this problem deliver?
	free := newStreamRun(c, nil)
	free.start()
	deadline := time.Now().Add(5 * time.Second)
	for !free.saw && time.Now().Before(deadline) {
		if !free.recvFn() {
			free.saw = true
		} else {
			free.nrecv++
		}
	}
	if !free.saw || free.nrecv != m {
		evs = append(evs, M{"op": "skip", "why": "the problem does not deliver the number of results the schedule is about", "delivered": free.nrecv})
		return out
	}
	procs := []string{"p"}
	if boolean(c, "forward") {
		procs = append(procs, "f")
	}
	ctl := sched.New(procs...)
	run := newStreamRun(c, ctl)
	run.start()
	steps := []M{}
	for _, e := range objs(c, "sched") {
		tok := str(e, "tok")
		var err error
		switch tok {
		case "p", "f":
			err = ctl.Release(tok, 2*time.Second)
		case "c":
			run.receiveAsync()
		}
		if err != nil {
			steps = append(steps, M{"tok": tok, "obs": M{"nrecv": -1, "saw": false, "ret": 0, "panic": false}, "note": err.Error()})
			break
		}
		want := obj(e, "obs")
		var got M
		until := time.Now().Add(700 * time.Millisecond)
		for {
			got = run.obs(m)
			if sameObs(got, want) || time.Now().After(until) {
				break
			}
			time.Sleep(100 * time.Microsecond)
		}
		if sameObs(got, want) { // stability: nothing more may happen without a token
			time.Sleep(300 * time.Microsecond)
			got = run.obs(m)
		}
		steps = append(steps, M{"tok": tok, "obs": got})
		if !sameObs(got, want) {
			break
		}
	}
	ctl.Drain()
	go func() { // let a blocked producer finish
		for run.recvFn() {
		}
	}()
	evs = append(evs, M{"op": "sched", "steps": steps, "points": ctl.Points})
	return out
}
