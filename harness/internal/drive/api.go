package drive

import (
	"fmt"
	"strconv"
	"strings"
	"sync"
	"time"

	"verifharness/internal/render"

	"github.com/crillab/gophersat/solver"
)

func init() {
	Drivers["api"] = API
	solver.VerifOnNew = onNewSolver
}

// ---- per-process tracing context (cases are executed one at a time in a vdrive process) ----

type traceCtx struct {
	mu           sync.Mutex
	on           bool
	events       []M
	reduceAt     int
	restartEvery int
	limit        int
	newEvents    bool
	only         map[string]bool // nil: every kind of event is kept
}

var ctx traceCtx

func onNewSolver(s *solver.Solver, pb *solver.Problem) {
	ctx.mu.Lock()
	defer ctx.mu.Unlock()
	if ctx.reduceAt > 0 || ctx.restartEvery > 0 {
		s.VerifSetKnobs(ctx.reduceAt, ctx.restartEvery)
	}
	if ctx.on {
		if ctx.newEvents && len(ctx.events) < ctx.limit { // a solver created inside the library (explain, maxsat): record its problem
			d := DumpProblem(pb)
			cl := [][]int{}
			for _, c := range d["cons"].([]M) {
				cl = append(cl, c["lits"].([]int))
			}
			ctx.events = append(ctx.events, M{"k": "new", "lit": 0, "lvl": 0, "dec": false, "lits": []int{}, "w": []int{}, "d": 0, "lrn": false, "tl": 0,
				"units": d["units"], "clauses": cl})
		}
		s.VerifSetTrace(func(ev solver.VerifEvent) {
			ctx.mu.Lock()
			if len(ctx.events) < ctx.limit && (ctx.only == nil || ctx.only[ev.K]) {
				ctx.events = append(ctx.events, M{"k": ev.K, "lit": ev.Lit, "lvl": ev.Lvl, "dec": ev.Dec,
					"lits": nnInts(ev.Lits), "w": nnInts(ev.W), "d": ev.D, "lrn": ev.Lrn, "tl": ev.TL})
			}
			ctx.mu.Unlock()
		})
	}
}

func takeEvents() []M {
	ctx.mu.Lock()
	defer ctx.mu.Unlock()
	ev := ctx.events
	ctx.events = nil
	if ev == nil {
		ev = []M{}
	}
	return ev
}

// ---- building problems through the public front ends ---------------------------------------

// DumpProblem projects a solver.Problem onto the abstract record the specification talks about,
// through public fields and accessors only.
func DumpProblem(pb *solver.Problem) M {
	units := make([]int, len(pb.Units))
	for i, u := range pb.Units {
		units[i] = int(u.Int())
	}
	cons := make([]M, len(pb.Clauses))
	for i, c := range pb.Clauses {
		lits := make([]int, c.Len())
		w := make([]int, c.Len())
		for j := 0; j < c.Len(); j++ {
			lits[j] = int(c.Get(j).Int())
			w[j] = c.Weight(j)
		}
		cons[i] = M{"lits": lits, "w": w, "d": c.Cardinality()}
	}
	return M{"n": pb.NbVars, "units": units, "cons": cons, "status": pb.Status.String()}
}

func clauseLits(c M) []int { return ints(c, "lits") }

// AsLin gives the OPB rendering of a constructor record; only relations >= and = exist in OPB,
// "<=" is written by negating both sides (a purely syntactic step of the printer).
func asLin(c M) render.Lin {
	lits, w := ints(c, "lits"), ints(c, "w")
	rel, rhs := ">=", num(c, "rhs")
	sign := 1
	switch str(c, "k") {
	case "clause":
		rhs = 1
	case "atmost", "lteq":
		sign = -1
		rhs = -rhs
	case "atmost1":
		sign = -1
		rhs = -1
	case "exactly1":
		rel, rhs = "=", 1
	case "eq":
		rel = "="
	}
	terms := make([]render.Term, len(lits))
	for i := range lits {
		wi := 1
		if i < len(w) {
			wi = w[i]
		}
		terms[i] = render.Term{W: sign * wi, Lit: lits[i]}
	}
	return render.Lin{Terms: terms, Rel: rel, Rhs: rhs}
}

func cp(s []int) []int { r := make([]int, len(s)); copy(r, s); return r }

// BuildProblem constructs the problem of an api case through the front end the case names.
// It returns the text that was parsed, if the front end is a text parser.
func BuildProblem(c Case) (pb *solver.Problem, text string, err error) {
	cons := objs(c, "cons")
	n := num(c, "n")
	cfg := obj(c, "cfg")
	layout := render.NewLayout(num(cfg, "layout"), int64(num(cfg, "layoutSeed")))
	switch front := str(c, "front"); front {
	case "slice", "slicenb", "dimacs":
		clauses := make([][]int, len(cons))
		for i, k := range cons {
			clauses[i] = clauseLits(k)
		}
		switch front {
		case "slice":
			pb = solver.ParseSlice(clauses)
		case "slicenb":
			pb = solver.ParseSliceNb(clauses, n)
		default:
			text = render.DIMACS(n, clauses, layout)
			pb, err = solver.ParseCNF(strings.NewReader(text))
		}
	case "card":
		var cs []solver.CardConstr
		for _, k := range cons {
			lits := clauseLits(k)
			switch str(k, "k") {
			case "clause":
				cs = append(cs, solver.AtLeast1(lits...))
			case "atmost1":
				cs = append(cs, solver.AtMost1(lits...))
			case "exactly1":
				cs = append(cs, solver.Exactly1(lits...)...)
			case "atleast":
				cs = append(cs, solver.CardConstr{Lits: lits, AtLeast: num(k, "rhs")})
			default:
				return nil, "", fmt.Errorf("constructor %q not available in the cardinality front end", str(k, "k"))
			}
		}
		pb = solver.ParseCardConstrs(cs)
	case "pb":
		var cs []solver.PBConstr
		for _, k := range cons {
			lits, w, rhs := clauseLits(k), cp(ints(k, "w")), num(k, "rhs")
			switch str(k, "k") {
			case "clause":
				cs = append(cs, solver.PropClause(lits...))
			case "atleast":
				cs = append(cs, solver.AtLeast(lits, rhs))
			case "atmost":
				cs = append(cs, solver.AtMost(lits, rhs))
			case "gteq":
				cs = append(cs, solver.GtEq(lits, w, rhs))
			case "lteq":
				cs = append(cs, solver.LtEq(lits, w, rhs))
			case "eq":
				cs = append(cs, solver.Eq(lits, w, rhs)...)
			default:
				return nil, "", fmt.Errorf("constructor %q not available in the PB front end", str(k, "k"))
			}
		}
		pb = solver.ParsePBConstrs(cs)
	case "opb":
		lins := make([]render.Lin, len(cons))
		for i, k := range cons {
			lins[i] = asLin(k)
		}
		o := obj(c, "obj")
		ol, ow := ints(o, "lits"), ints(o, "w")
		terms := make([]render.Term, len(ol))
		for i := range ol {
			terms[i] = render.Term{W: ow[i], Lit: ol[i]}
		}
		text = render.OPB(n, boolean(c, "hasObj"), terms, lins, layout)
		pb, err = solver.ParseOPB(strings.NewReader(text))
	default:
		return nil, "", fmt.Errorf("unknown front end %q", front)
	}
	if err != nil {
		return nil, text, err
	}
	if boolean(c, "hasObj") && str(c, "front") != "opb" {
		o := obj(c, "obj")
		ol, ow := ints(o, "lits"), ints(o, "w")
		lits := make([]solver.Lit, len(ol))
		for i, l := range ol {
			lits[i] = solver.IntToLit(int32(l))
		}
		if boolean(c, "objNilW") {
			pb.SetCostFunc(lits, nil)
		} else {
			pb.SetCostFunc(lits, ow)
		}
	}
	return pb, text, nil
}

func toLits(l []int) []solver.Lit {
	res := make([]solver.Lit, len(l))
	for i, x := range l {
		res[i] = solver.IntToLit(int32(x))
	}
	return res
}

// constraint of an append event, built with the public constructors
func buildClause(k M) *solver.Clause {
	lits, w, rhs := clauseLits(k), cp(ints(k, "w")), num(k, "rhs")
	switch str(k, "k") {
	case "clause":
		return solver.NewClause(toLits(lits))
	case "atleast":
		return solver.NewCardClause(toLits(lits), rhs)
	case "gteq":
		return solver.NewPBClause(toLits(lits), w, rhs)
	}
	panic("harness: unsupported constructor in append: " + str(k, "k"))
}

// ---- certificate collection -------------------------------------------------------------------

type certSink struct {
	ch    chan string
	mu    sync.Mutex
	lines []string
	ack   chan struct{}
}

func newCertSink() *certSink {
	cs := &certSink{ch: make(chan string), ack: make(chan struct{})}
	go func() {
		for l := range cs.ch {
			if l == "\x00sync" {
				cs.ack <- struct{}{}
				continue
			}
			cs.mu.Lock()
			cs.lines = append(cs.lines, l)
			cs.mu.Unlock()
		}
	}()
	return cs
}

// take returns the lines received so far (all lines sent before the call, the channel being unbuffered).
func (cs *certSink) take() [][]int {
	cs.ch <- "\x00sync"
	<-cs.ack
	cs.mu.Lock()
	defer cs.mu.Unlock()
	res := make([][]int, 0, len(cs.lines))
	for _, l := range cs.lines {
		res = append(res, parseCertLine(l))
	}
	cs.lines = nil
	return res
}

// parseCertLine tokenises a certificate line "l1 l2 ... 0"; an unparsable token is kept as 0
// inside the clause, which no specification accepts.
func parseCertLine(l string) []int {
	f := strings.Fields(l)
	res := []int{}
	for i, t := range f {
		v, err := strconv.Atoi(t)
		if err != nil {
			res = append(res, 0)
			continue
		}
		if v == 0 && i == len(f)-1 {
			break
		}
		res = append(res, v)
	}
	return res
}

// ---- the driver ------------------------------------------------------------------------------

func statusOf(st solver.Status) string { return st.String() }

// API executes an api case: builds the problem through the named front end, creates a solver and
// performs the calls listed in "ev", recording each reply.
func API(c Case) (out Case) {
	out = copyCase(c)
	evs := []M{}
	out["ev"] = evs
	cfg := obj(c, "cfg")
	defer func() {
		if r := recover(); r != nil {
			evs = append(evs, crashEvent(r))
		}
		out["ev"] = evs
		ctx.mu.Lock()
		ctx.on, ctx.reduceAt, ctx.restartEvery = false, 0, 0
		ctx.mu.Unlock()
	}()
	ctx.mu.Lock()
	ctx.on = boolean(cfg, "wb")
	ctx.events = nil
	ctx.limit = 20000
	ctx.reduceAt, ctx.restartEvery = num(cfg, "reduceAt"), num(cfg, "restartEvery")
	ctx.mu.Unlock()

	pb, text, err := BuildProblem(c)
	if text != "" {
		out["text"] = text
	}
	if err != nil {
		evs = append(evs, M{"op": "crash", "msg": "front end returned an error: " + err.Error(), "stack": ""})
		return out
	}
	evs = append(evs, M{"op": "dump", "d": DumpProblem(pb)})
	if boolean(c, "hasObj") {
		// Precondition of SetCostFunc: the cost function is over variables of the problem. The constraint
		// front ends do not register variables that only occur in trivially true constraints.
		for _, l := range ints(obj(c, "obj"), "lits") {
			if l > pb.NbVars || -l > pb.NbVars {
				evs = append(evs, M{"op": "skip", "why": "cost function mentions a variable the parsed problem does not have"})
				return out
			}
		}
	}
	if boolean(cfg, "amo") {
		before := DumpProblem(pb)
		pb.DetectAtMostOne()
		evs = append(evs, M{"op": "amo", "before": before, "after": DumpProblem(pb)})
	}
	s := solver.New(pb)
	s.CuttingPlanes = boolean(cfg, "cp")
	var sink *certSink
	if boolean(cfg, "cert") {
		sink = newCertSink()
		s.Certified = true
		s.CertChan = sink.ch
		defer close(sink.ch)
	}
	capacity := num(cfg, "cap")
	var lastModel []bool // the model of the latest Sat answer of Solve (for "blocklast")
	for _, e := range objs(c, "ev") {
		r := copyCase(e)
		switch str(e, "op") {
		case "solve":
			st := s.Solve()
			r["status"] = statusOf(st)
			r["model"] = []bool{}
			lastModel = nil
			if st == solver.Sat {
				r["model"] = nnBools(s.Model())
				lastModel = nnBools(s.Model())
			}
			r["cert"] = [][]int{}
			r["certOn"] = sink != nil
			if sink != nil {
				r["cert"] = sink.take()
			}
			r["wb"] = takeEvents()
		case "append":
			s.AppendClause(buildClause(obj(e, "c")))
		case "blocklast":
			// an adaptive history inside (Solve | AppendClause)*: the clause that excludes the model just
			// returned is appended; recorded as an ordinary "append" event with the clause that was given
			if lastModel == nil {
				evs = append(evs, M{"op": "skip", "why": "no model to block"})
				continue
			}
			lits := make([]any, len(lastModel)) // the accessors read JSON-shaped values
			w := make([]any, len(lastModel))
			for v, val := range lastModel {
				lits[v], w[v] = float64(v+1), float64(1)
				if val {
					lits[v] = float64(-(v + 1))
				}
			}
			k := M{"k": "clause", "lits": lits, "w": w, "rhs": float64(1)}
			if len(clauseLits(k)) != len(lastModel) {
				panic("harness: blocking clause not built")
			}
			r["op"], r["c"] = "append", k
			s.AppendClause(buildClause(k))
		case "assume":
			st := s.Assume(toLits(ints(e, "ls")))
			r["status"] = statusOf(st)
		case "count":
			r["k"] = s.CountModels()
			r["wb"] = takeEvents()
		case "enum":
			useChan := boolean(e, "chan")
			models := [][]bool{}
			closed := false
			var ret int
			if useChan {
				ch := make(chan []bool, capacity)
				done := make(chan struct{})
				go func() {
					for m := range ch {
						models = append(models, nnBools(m))
						consumerDelay(cfg)
					}
					closed = true
					close(done)
				}()
				ret = s.Enumerate(ch, nil)
				select {
				case <-done:
				case <-time.After(2 * time.Second):
				}
			} else {
				ret = s.Enumerate(nil, nil)
			}
			r["ret"], r["models"], r["closed"] = ret, models, closed
			r["wb"] = takeEvents()
		case "optimal":
			useChan := boolean(e, "chan")
			var kept []keptResult
			closed := false
			var res solver.Result
			if useChan {
				ch := make(chan solver.Result, capacity)
				done := make(chan struct{})
				go func() {
					for x := range ch {
						kept = append(kept, streamRec(x))
						consumerDelay(cfg)
					}
					closed = true
					close(done)
				}()
				res = s.Optimal(ch, nil)
				select {
				case <-done:
				case <-time.After(2 * time.Second):
				}
			} else {
				res = s.Optimal(nil, nil)
			}
			for k, v := range resultRec(res) {
				r[k] = v
			}
			r["stream"], r["closed"] = lateModels(kept), closed
			r["wb"] = takeEvents()
		case "minimize":
			cost := s.Minimize()
			r["cost"] = cost
			r["model"], r["hasModel"] = []bool{}, false
			if cost != -1 {
				func() {
					defer func() { recover() }()
					r["model"] = nnBools(s.Model())
					r["hasModel"] = true
				}()
			}
			r["wb"] = takeEvents()
		default:
			panic("harness: unknown op " + str(e, "op"))
		}
		evs = append(evs, r)
	}
	return out
}

// consumerDelay makes the receiving goroutine slower than the producer (cfg.delayUs microseconds).
func consumerDelay(cfg M) {
	if d := num(cfg, "delayUs"); d > 0 {
		time.Sleep(time.Duration(d) * time.Microsecond)
	}
}

// resultRec records a result as the receiver sees it when it arrives (the model is copied, i.e. read,
// at that moment). streamRec additionally keeps the delivered slice itself: lateModels reads it again
// once the call has returned, which is what a consumer that keeps the results sees.
func resultRec(x solver.Result) M {
	m := []bool{}
	if x.Status == solver.Sat {
		m = append(m, x.Model...)
	}
	return M{"status": statusOf(x.Status), "model": m, "cost": x.Weight}
}

type keptResult struct {
	rec M
	ref []bool
}

func streamRec(x solver.Result) keptResult { return keptResult{rec: resultRec(x), ref: x.Model} }

func lateModels(kept []keptResult) []M {
	res := make([]M, len(kept))
	for i, k := range kept {
		late := []bool{}
		if k.rec["status"] == "SAT" {
			late = append(late, k.ref...)
		}
		k.rec["late"] = late
		res[i] = k.rec
	}
	return res
}
