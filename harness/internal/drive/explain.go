package drive

import (
	"fmt"
	"math/rand"
	"strings"

	"verifharness/internal/render"

	"github.com/crillab/gophersat/explain"
	"github.com/crillab/gophersat/solver"
)

func init() { Drivers["explain"] = Explain }

func clausesOf(c M, k string) [][]int {
	l := list(c, k)
	res := make([][]int, len(l))
	for i, x := range l {
		res[i] = intsOf(x)
	}
	return res
}

func dumpExplain(pb *explain.Problem) M {
	cl := make([][]int, len(pb.Clauses))
	for i, c := range pb.Clauses {
		cl[i] = nnInts(append([]int(nil), c...))
	}
	return M{"n": pb.NbVars, "nb": pb.NbClauses, "clauses": cl}
}

func certText(cert [][]int) string {
	var b strings.Builder
	for _, c := range cert {
		for _, l := range c {
			fmt.Fprintf(&b, "%d ", l)
		}
		b.WriteString("0\n")
	}
	return b.String()
}

// solverCert runs the real solver with certification on and returns the emitted lines.
func solverCert(clauses [][]int, n int) [][]int {
	cl := make([][]int, len(clauses))
	for i, c := range clauses {
		cl[i] = append([]int(nil), c...)
	}
	pb := solver.ParseSliceNb(cl, n)
	s := solver.New(pb)
	sink := newCertSink()
	s.Certified = true
	s.CertChan = sink.ch
	s.Solve()
	lines := sink.take()
	close(sink.ch)
	return lines
}

func mutateCert(cert [][]int, mut string, r *rand.Rand, n int) [][]int {
	res := make([][]int, len(cert))
	for i, c := range cert {
		res[i] = append([]int{}, c...)
	}
	if len(res) == 0 {
		return res
	}
	i := r.Intn(len(res))
	switch mut {
	case "drop":
		if len(res[i]) > 0 {
			j := r.Intn(len(res[i]))
			res[i] = append(res[i][:j], res[i][j+1:]...)
		}
	case "flip":
		if len(res[i]) > 0 {
			j := r.Intn(len(res[i]))
			res[i][j] = -res[i][j]
		}
	case "remove":
		res = append(res[:i], res[i+1:]...)
	case "swap":
		j := r.Intn(len(res))
		res[i], res[j] = res[j], res[i]
	}
	return res
}

// Explain executes an explain case.
func Explain(c Case) (out Case) {
	out = copyCase(c)
	evs := []M{}
	defer func() {
		if r := recover(); r != nil {
			evs = append(evs, crashEvent(r))
		}
		out["ev"] = evs
	}()
	clauses := clausesOf(c, "clauses")
	n := num(c, "n")
	text := render.DIMACS(n, clauses, render.NewLayout(0, 0))
	out["text"] = text
	parse := func() *explain.Problem {
		pb, err := explain.ParseCNF(strings.NewReader(text))
		if err != nil {
			panic("explain.ParseCNF returned an error on a well-formed file: " + err.Error())
		}
		pb.Options.Verbose = boolean(c, "verbose") // a configuration of the caller: messages on stdout, same answers
		return pb
	}
	// one Problem object for the whole case: a caller may run several extractions / checks on it
	shared := parse()
	for ei, e := range objs(c, "ev") {
		r := copyCase(e)
		pb := shared
		if boolean(c, "freshProblem") && ei > 0 {
			pb = parse()
		}
		before := dumpExplain(pb)
		r["wb"] = []M{}
		switch str(e, "op") {
		case "mus":
			var mus *explain.Problem
			var err error
			if boolean(c, "wb") && str(e, "method") != "MUSMaxSat" { // white-box events of the solvers the method creates
				ctx.mu.Lock()
				// the trace specification reads the clauses a solver is given and the clauses it learns (LearnFold)
				ctx.on, ctx.newEvents, ctx.events, ctx.limit = true, true, nil, 20000
				ctx.only = map[string]bool{"append": true, "block": true, "learn": true, "learn-empty": true}
				ctx.mu.Unlock()
			}
			switch str(e, "method") {
			case "MUS":
				mus, err = pb.MUS()
			case "MUSDeletion":
				mus, err = pb.MUSDeletion()
			case "MUSInsertion":
				mus, err = pb.MUSInsertion()
			case "MUSMaxSat":
				mus, err = pb.MUSMaxSat()
			default:
				panic("harness: unknown MUS method")
			}
			ctx.mu.Lock()
			wasOn := ctx.on
			ctx.on, ctx.newEvents, ctx.only = false, false, nil
			ctx.mu.Unlock()
			if wasOn {
				r["wb"] = takeEvents()
			}
			r["err"] = err != nil
			r["errText"] = ""
			r["res"] = M{"n": 0, "nb": 0, "clauses": [][]int{}}
			if err != nil {
				r["errText"] = err.Error()
			} else if mus == nil {
				panic("MUS method returned neither a problem nor an error")
			} else {
				r["res"] = dumpExplain(mus)
			}
		case "subset":
			sub, err := pb.UnsatSubset()
			r["err"] = err != nil
			r["res"] = M{"n": 0, "nb": 0, "clauses": [][]int{}}
			if err == nil {
				if sub == nil {
					panic("UnsatSubset returned neither a problem nor an error")
				}
				r["res"] = dumpExplain(sub)
			}
		case "check":
			var cert [][]int
			if str(e, "src") == "solver" {
				cert = solverCert(clauses, n)
				cert = mutateCert(cert, str(e, "mut"), rand.New(rand.NewSource(int64(num(e, "seed")))), n)
			} else {
				cert = clausesOf(e, "cert")
			}
			r["cert"] = cert
			check := func() (bool, error) {
				if str(e, "entry") == "chan" {
					ch := make(chan string)
					go func() {
						defer func() { recover() }()
						for _, l := range strings.Split(strings.TrimRight(certText(cert), "\n"), "\n") {
							if l != "" {
								ch <- l
							}
						}
						close(ch)
					}()
					valid, err := pb.UnsatChan(ch)
					go func() { // drain, the checker may return before the end
						for range ch {
						}
					}()
					return valid, err
				}
				return pb.Unsat(strings.NewReader(certText(cert)))
			}
			valid, err := check()
			r["valid"], r["err"] = valid, err != nil
			valid2, _ := check()
			r["valid2"] = valid2
		default:
			panic("harness: unknown explain op")
		}
		after := dumpExplain(pb)
		r["before"], r["after"] = before, after
		evs = append(evs, r)
	}
	return out
}
