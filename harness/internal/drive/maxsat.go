package drive

import (
	"fmt"
	"sort"
	"time"

	"verifharness/internal/render"

	"github.com/crillab/gophersat/maxsat"
	"github.com/crillab/gophersat/solver"
)

func init() { Drivers["maxsat"] = MaxSat }

func msLits(lits []int) []maxsat.Lit {
	res := make([]maxsat.Lit, len(lits))
	for i, l := range lits {
		if l < 0 {
			res[i] = maxsat.Not(fmt.Sprintf("v%d", -l))
		} else {
			res[i] = maxsat.Var(fmt.Sprintf("v%d", l))
		}
	}
	return res
}

// MaxSat executes a maxsat case: route "api" builds the instance with the constraint constructors
// and calls Solve; route "wcnf" prints it as WCNF text, parses it and calls Optimal.
func MaxSat(c Case) (out Case) {
	out = copyCase(c)
	evs := []M{}
	defer func() {
		if r := recover(); r != nil {
			evs = append(evs, crashEvent(r))
		}
		out["ev"] = evs
	}()
	cons := objs(c, "cons")
	n := num(c, "n")
	if _, ok := c["ts"]; !ok {
		out["ts"], out["m"], out["withTop"] = []string{}, 0, false
	}
	switch str(c, "route") {
	case "api":
		var cs []maxsat.Constr
		shared := map[string][]int{} // constraints with equal coefficient lists share one slice, as callers do
		for _, k := range cons {
			lits, w, rhs, weight := msLits(ints(k, "lits")), cp(ints(k, "w")), num(k, "rhs"), num(k, "weight")
			key := fmt.Sprint(w)
			if prev, ok := shared[key]; ok {
				w = prev
			} else {
				shared[key] = w
			}
			switch str(k, "k") {
			case "clause":
				switch {
				case weight == 0:
					cs = append(cs, maxsat.HardClause(lits...))
				case weight == 1:
					cs = append(cs, maxsat.SoftClause(lits...))
				default:
					cs = append(cs, maxsat.WeightedClause(lits, weight))
				}
			case "atleast": // cardinality constraint: implicit unit coefficients
				switch {
				case weight == 0:
					cs = append(cs, maxsat.HardPBConstr(lits, nil, rhs))
				case weight == 1:
					cs = append(cs, maxsat.SoftPBConstr(lits, nil, rhs))
				default:
					cs = append(cs, maxsat.WeightedPBConstr(lits, nil, rhs, weight))
				}
			case "gteq":
				switch {
				case weight == 0:
					cs = append(cs, maxsat.HardPBConstr(lits, w, rhs))
				case weight == 1:
					cs = append(cs, maxsat.SoftPBConstr(lits, w, rhs))
				default:
					cs = append(cs, maxsat.WeightedPBConstr(lits, w, rhs, weight))
				}
			default:
				panic("harness: unsupported maxsat constructor " + str(k, "k"))
			}
		}
		var prev *maxsat.Problem
		for _, e := range objs(c, "ev") {
			r := copyCase(e)
			pb := maxsat.New(cs...)
			if boolean(e, "sameProblem") && prev != nil { // Solve once more on the Problem value of the previous event
				pb = prev
			}
			prev = pb
			model, cost := pb.Solve()
			r["isNil"] = model == nil
			r["cost"] = cost
			dom, val := []int{}, []bool{}
			names := make([]string, 0, len(model))
			for name := range model {
				names = append(names, name)
			}
			sort.Strings(names)
			other := []string{}
			for _, name := range names {
				var v int
				if _, err := fmt.Sscanf(name, "v%d", &v); err != nil || fmt.Sprintf("v%d", v) != name {
					other = append(other, name)
					v = 0
				}
				dom = append(dom, v) // 0 = a name the caller never used
				val = append(val, model[name])
			}
			r["dom"], r["val"], r["foreign"] = dom, val, other
			evs = append(evs, r)
		}
	case "wcnf":
		var wc []render.WClause
		for _, k := range cons {
			weight := num(k, "weight")
			wc = append(wc, render.WClause{Hard: weight == 0, Weight: weight, Lits: ints(k, "lits")})
		}
		cfg := obj(c, "cfg")
		text := render.WCNF(n, num(c, "top"), wc, render.NewLayout(num(cfg, "layout"), int64(num(cfg, "layoutSeed"))))
		if given := str(c, "text"); given != "" { // a text enumerated by FormatsGen.tla, fed as it is
			text = given
		}
		out["text"] = text
		for _, e := range objs(c, "ev") {
			r := copyCase(e)
			s, err := maxsat.ParseWCNF(readerOf(text, num(cfg, "reader")))
			if err != nil {
				evs = append(evs, M{"op": "crash", "msg": "ParseWCNF returned an error on a well-formed file: " + err.Error(), "stack": ""})
				return out
			}
			useChan := boolean(e, "chan")
			var kept []keptResult
			closed := false
			var res solver.Result
			if useChan {
				ch := make(chan solver.Result, num(cfg, "cap"))
				done := make(chan struct{})
				go func() {
					for x := range ch {
						kept = append(kept, streamRec(x))
						consumerDelay(cfg)
					}
					closed = true
					close(done)
				}()
				res = s.Optimal(ch, nil)
				select {
				case <-done:
				case <-time.After(2 * time.Second):
				}
			} else {
				res = s.Optimal(nil, nil)
			}
			for k, v := range resultRec(res) {
				r[k] = v
			}
			r["stream"], r["closed"] = lateModels(kept), closed
			evs = append(evs, r)
		}
	default:
		panic("harness: unknown maxsat route")
	}
	return out
}
