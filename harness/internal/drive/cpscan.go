package drive

import (
	"math/rand"
	"time"

	"github.com/crillab/gophersat/solver"
)

func init() { Drivers["cpscan"] = CPScan }

// CPScan is a candidate selector, not a judge: it runs many small random PB optimisation problems
// with the cutting-planes strategy off and on inside the driver and returns, as ordinary api cases,
// the few on which the two runs differ or one of them does not come back in time. The orchestrator
// then executes and validates those cases like any other; only that validated execution can become
// a verdict.
func CPScan(c Case) (out Case) {
	out = copyCase(c)
	r := rand.New(rand.NewSource(int64(num(c, "seed"))))
	count := num(c, "count")
	found := []M{}
	leaked := 0
	for i := 0; i < count && leaked < 4 && len(found) < 10; i++ {
		n := 4 + r.Intn(4)
		m := 2 + r.Intn(4)
		cons := make([]M, 0, m)
		for j := 0; j < m; j++ {
			k := 2 + r.Intn(minInt(n, 5)-1)
			perm := r.Perm(n)[:k]
			lits, ws := make([]int, k), make([]int, k)
			sum := 0
			for x, v := range perm {
				lits[x] = v + 1
				if r.Intn(2) == 0 {
					lits[x] = -lits[x]
				}
				ws[x] = 1
				if r.Intn(3) == 0 {
					ws[x] = 1 + r.Intn(5)
				}
				sum += ws[x]
			}
			cons = append(cons, M{"k": "gteq", "lits": lits, "w": ws, "rhs": 1 + r.Intn(sum)})
		}
		k := 1 + r.Intn(n)
		ol, ow := make([]int, 0, k), make([]int, 0, k)
		for _, v := range r.Perm(n)[:k] {
			l := v + 1
			if r.Intn(4) == 0 {
				l = -l
			}
			ol, ow = append(ol, l), append(ow, 1+r.Intn(5))
		}
		run := func(cp bool) (int, bool) {
			var cs []solver.PBConstr
			for _, k := range cons {
				cs = append(cs, solver.GtEq(cp2(k["lits"].([]int)), cp2(k["w"].([]int)), k["rhs"].(int)))
			}
			pb := solver.ParsePBConstrs(cs)
			lits := make([]solver.Lit, len(ol))
			for x, l := range ol {
				if l > pb.NbVars || -l > pb.NbVars {
					return -2, true // outside the precondition of SetCostFunc
				}
				lits[x] = solver.IntToLit(int32(l))
			}
			pb.SetCostFunc(lits, cp2(ow))
			s := solver.New(pb)
			s.CuttingPlanes = cp
			done := make(chan int, 1)
			go func() {
				defer func() {
					if recover() != nil {
						done <- -3
					}
				}()
				done <- s.Minimize()
			}()
			select {
			case v := <-done:
				return v, true
			case <-time.After(2 * time.Second):
				return 0, false
			}
		}
		a, ok1 := run(false)
		b, ok2 := run(true)
		if !ok1 {
			leaked++
		}
		if !ok2 {
			leaked++
		}
		if !ok1 || !ok2 || a != b {
			found = append(found, M{"n": n, "cons": cons, "obj": M{"lits": ol, "w": ow}})
		}
	}
	out["ev"] = []M{{"op": "scan", "scanned": count, "found": found}}
	return out
}

func cp2(x []int) []int { return append([]int{}, x...) }

func minInt(a, b int) int {
	if a < b {
		return a
	}
	return b
}
