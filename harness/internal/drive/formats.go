package drive

import (
	"fmt"
	"strconv"
	"strings"

	"verifharness/internal/render"

	"github.com/crillab/gophersat/explain"
	"github.com/crillab/gophersat/solver"
)

func init() { Drivers["fmt"] = Formats }

func objDump(pb *solver.Problem) (bool, M) {
	lits, w := pb.VerifCostFunc()
	if lits == nil {
		return false, M{"lits": []int{}, "w": []int{}}
	}
	ol := make([]int, len(lits))
	ow := make([]int, len(lits))
	for i, l := range lits {
		ol[i] = int(l.Int())
		ow[i] = 1
		if w != nil {
			ow[i] = w[i]
		}
	}
	return true, M{"lits": ol, "w": ow}
}

func emptyDump() M {
	return M{"n": 0, "units": []int{}, "cons": []M{}, "status": "INDETERMINATE"}
}

// headerOf tokenises a DIMACS text independently of the parsers: header counts, number of clause
// terminators, highest variable.
func headerOf(text string) (hdrVars, hdrClauses, nbLines, maxVar int) {
	hdrVars, hdrClauses = -1, -1
	for _, line := range strings.Split(text, "\n") {
		f := strings.Fields(line)
		if len(f) == 0 || f[0] == "c" {
			continue
		}
		if f[0] == "p" {
			if len(f) >= 4 {
				hdrVars, _ = strconv.Atoi(f[2])
				hdrClauses, _ = strconv.Atoi(f[3])
			}
			continue
		}
		for _, t := range f {
			v, err := strconv.Atoi(t)
			if err != nil {
				continue
			}
			if v == 0 {
				nbLines++
			}
			if v < 0 {
				v = -v
			}
			if v > maxVar {
				maxVar = v
			}
		}
	}
	return
}

// lexText splits a printed text into the lexed tokens the reference readers of Formats.tla work on:
// lines, whitespace-separated tokens, and the shape of each token (integer, xK / ~xK, anything else).
// A line starting with the comment character of the format is one "com" token; the "p cnf" header line
// of a DIMACS text is left out (its counts are reported separately). No grammar is applied here.
func lexText(text string, opb bool) []M {
	toks := []M{}
	tk := func(k string, v int, s string) M { return M{"k": k, "v": v, "s": s} }
	lines := strings.Split(text, "\n")
	for li, line := range lines {
		last := li == len(lines)-1
		f := strings.Fields(line)
		switch {
		case len(f) == 0:
		case opb && strings.HasPrefix(f[0], "*"), !opb && f[0] == "c":
			toks = append(toks, tk("com", 0, ""))
		case !opb && f[0] == "p":
			continue // the header line and its line end
		default:
			for _, t := range f {
				if v, err := strconv.Atoi(t); err == nil {
					toks = append(toks, tk("num", v, ""))
					continue
				}
				name, sign := t, 1
				if strings.HasPrefix(name, "~") {
					name, sign = name[1:], -1
				}
				if strings.HasPrefix(name, "x") {
					if v, err := strconv.Atoi(name[1:]); err == nil && v > 0 && !strings.HasPrefix(name[1:], "+") {
						toks = append(toks, tk("var", sign*v, ""))
						continue
					}
				}
				toks = append(toks, tk("sym", 0, t))
			}
		}
		if !last {
			toks = append(toks, tk("nl", 0, ""))
		}
	}
	return toks
}

func propositional(d M) bool {
	for _, c := range d["cons"].([]M) {
		if c["d"].(int) != 1 {
			return false
		}
		for _, w := range c["w"].([]int) {
			if w != 1 {
				return false
			}
		}
	}
	return true
}

// Formats executes a fmt case: parsing of rendered texts (C13), printing and re-parsing (C18).
func Formats(c Case) (out Case) {
	out = copyCase(c)
	evs := []M{}
	defer func() {
		if r := recover(); r != nil {
			evs = append(evs, crashEvent(r))
		}
		out["ev"] = evs
	}()
	cons := objs(c, "cons")
	n := num(c, "n")
	cfg := obj(c, "cfg")
	// a case enumerated by FormatsGen.tla carries the bytes of the file (text) and the tokens they were
	// rendered from (ts): the text is fed to the parser as it is
	given := str(c, "text")
	rk := num(cfg, "reader") // how the text is delivered to the parser (readerOf)
	if _, ok := c["ts"]; !ok {
		out["ts"], out["m"], out["withTop"] = []string{}, 0, false
	}
	layout := func() *render.Layout { return render.NewLayout(num(cfg, "layout"), int64(num(cfg, "layoutSeed"))) }
	clauses := func() [][]int {
		cl := make([][]int, len(cons))
		for i, k := range cons {
			cl[i] = clauseLits(k)
		}
		return cl
	}
	for _, e := range objs(c, "ev") {
		r := copyCase(e)
		r["panic"], r["err"] = false, false
		switch str(e, "op") {
		case "parse": // solver.ParseCNF / solver.ParseOPB
			var text string
			var pb *solver.Problem
			var err error
			r["d"], r["hasObjD"], r["objD"] = emptyDump(), false, M{"lits": []int{}, "w": []int{}}
			r["counted"], r["count"] = false, 0
			func() {
				defer func() {
					if x := recover(); x != nil {
						r["panic"], r["msg"] = true, fmt.Sprint(x)
					}
				}()
				if given != "" {
					text = given
					if str(c, "kind") == "cnf" {
						pb, err = solver.ParseCNF(readerOf(text, rk))
					} else {
						pb, err = solver.ParseOPB(readerOf(text, rk))
					}
				} else if str(c, "kind") == "cnf" {
					text = render.DIMACS(n, clauses(), layout())
					pb, err = solver.ParseCNF(readerOf(text, rk))
				} else {
					lins := make([]render.Lin, len(cons))
					for i, k := range cons {
						lins[i] = asLin(k)
					}
					o := obj(c, "obj")
					ol, ow := ints(o, "lits"), ints(o, "w")
					terms := make([]render.Term, len(ol))
					for i := range ol {
						terms[i] = render.Term{W: ow[i], Lit: ol[i]}
					}
					text = render.OPB(n, boolean(c, "hasObj"), terms, lins, layout())
					pb, err = solver.ParseOPB(readerOf(text, rk))
				}
				if err != nil {
					r["err"], r["msg"] = true, err.Error()
					return
				}
				r["d"] = DumpProblem(pb)
				r["hasObjD"], r["objD"] = objDump(pb)
				// what the SOLVER makes of the parsed problem: the same text parsed once more and counted (a
				// problem that is equivalent to the text when read statically may still be one the search
				// mishandles, e.g. constraints that kept literals fixed at parse time)
				if pb.NbVars <= 12 {
					var pb2 *solver.Problem
					var err2 error
					if str(c, "kind") == "cnf" {
						pb2, err2 = solver.ParseCNF(strings.NewReader(text))
					} else {
						pb2, err2 = solver.ParseOPB(strings.NewReader(text))
					}
					if err2 == nil {
						r["counted"], r["count"] = true, -1
						r["count"] = solver.New(pb2).CountModels()
					}
				}
			}()
			r["text"] = text
		case "eparse": // explain.ParseCNF
			text := given
			if given == "" {
				text = render.DIMACS(n, clauses(), layout())
			}
			r["text"] = text
			r["d"] = M{"n": 0, "nb": 0, "clauses": [][]int{}}
			func() {
				defer func() {
					if x := recover(); x != nil {
						r["panic"], r["msg"] = true, fmt.Sprint(x)
					}
				}()
				pb, err := explain.ParseCNF(readerOf(text, rk))
				if err != nil {
					r["err"], r["msg"] = true, err.Error()
					return
				}
				r["d"] = dumpExplain(pb)
			}()
		case "print":
			pb, _, err := BuildProblem(c)
			if err != nil {
				evs = append(evs, M{"op": "skip", "why": "the front end rejected the input: " + err.Error()})
				continue
			}
			orig := DumpProblem(pb)
			printer := str(e, "printer")
			skip := false
			if boolean(c, "hasObj") { // precondition of SetCostFunc: variables of the problem
				for _, l := range ints(obj(c, "obj"), "lits") {
					if l > pb.NbVars || -l > pb.NbVars {
						skip = true
					}
				}
			}
			if skip {
				evs = append(evs, M{"op": "skip", "why": "cost function mentions a variable the parsed problem does not have"})
				continue
			}
			if boolean(e, "printedBefore") && boolean(c, "hasObj") && printer == "pb.PBString" {
				// the same Problem value was printed earlier, when it had ANOTHER cost function; it is then given
				// the cost function of the case (what an earlier rendering leaves behind shows in the next one)
				ol, ow := ints(obj(c, "obj"), "lits"), ints(obj(c, "obj"), "w")
				lits, w2 := make([]solver.Lit, len(ol)), make([]int, len(ol))
				for i, l := range ol {
					lits[i] = solver.IntToLit(int32(l))
					w2[i] = ow[len(ow)-1-i] + 1 + i
				}
				func() {
					defer func() { recover() }()
					pb.SetCostFunc(lits, w2)
					_ = pb.PBString()
				}()
				pb.SetCostFunc(lits, cp(ow))
			}
			hasObj, objO := objDump(pb)
			r["orig"], r["hasObj"], r["obj"] = orig, hasObj, objO
			r["re"], r["hasObjRe"], r["objRe"] = emptyDump(), false, M{"lits": []int{}, "w": []int{}}
			r["hdr"], r["hdrVars"], r["hdrClauses"], r["nbLines"], r["maxVar"], r["reErr"], r["strictN"] = false, 0, 0, 0, 0, false, false
			r["lex"] = []M{}
			if printer == "pb.CNF" && (!propositional(orig) || hasObj) {
				evs = append(evs, M{"op": "skip", "why": "a cardinality / PB / optimisation problem has no DIMACS rendering"})
				continue
			}
			func() {
				defer func() {
					if x := recover(); x != nil {
						r["panic"], r["msg"] = true, fmt.Sprint(x)
					}
				}()
				var text string
				var re *solver.Problem
				var err error
				if boolean(e, "solveFirst") && printer != "solver.PBString" {
					// the Problem value is rendered after a solver built on it has searched: the Problem is still the
					// problem the parser built
					s := solver.New(pb)
					if boolean(e, "assumeFirst") && pb.NbVars > 0 {
						s.Assume([]solver.Lit{solver.IntToLit(int32(1 + num(e, "seed")%pb.NbVars))})
					}
					s.Solve()
				}
				switch printer {
				case "pb.CNF":
					text = pb.CNF()
					r["hdr"], r["strictN"] = true, true
					r["hdrVars"], r["hdrClauses"], r["nbLines"], r["maxVar"] = headerOf(text)
					re, err = solver.ParseCNF(strings.NewReader(text))
				case "pb.PBString":
					text = pb.PBString()
					re, err = solver.ParseOPB(strings.NewReader(text))
				case "solver.PBString":
					s := solver.New(pb)
					if boolean(e, "solveFirst") {
						s.Solve()
					}
					text = s.PBString()
					re, err = solver.ParseOPB(strings.NewReader(text))
				default:
					panic("harness: unknown printer " + printer)
				}
				r["text"] = text
				r["lex"] = lexText(text, printer != "pb.CNF")
				if err != nil {
					r["reErr"], r["msg"] = true, err.Error()
					return
				}
				r["re"] = DumpProblem(re)
				r["hasObjRe"], r["objRe"] = objDump(re)
			}()
		case "eprint":
			text0 := render.DIMACS(n, clauses(), render.NewLayout(0, 0))
			pb, err := explain.ParseCNF(strings.NewReader(text0))
			if err != nil {
				evs = append(evs, M{"op": "skip", "why": "explain.ParseCNF rejected the input"})
				continue
			}
			r["orig"] = dumpExplain(pb)
			r["re"] = M{"n": 0, "nb": 0, "clauses": [][]int{}}
			r["hdrVars"], r["hdrClauses"], r["nbLines"], r["maxVar"], r["reErr"] = 0, 0, 0, 0, false
			r["lex"] = []M{}
			func() {
				defer func() {
					if x := recover(); x != nil {
						r["panic"], r["msg"] = true, fmt.Sprint(x)
					}
				}()
				text := pb.CNF()
				r["text"] = text
				r["lex"] = lexText(text, false)
				r["hdrVars"], r["hdrClauses"], r["nbLines"], r["maxVar"] = headerOf(text)
				re, err := explain.ParseCNF(strings.NewReader(text))
				if err != nil {
					r["reErr"], r["msg"] = true, err.Error()
					return
				}
				r["re"] = dumpExplain(re)
			}()
		default:
			panic("harness: unknown fmt op")
		}
		evs = append(evs, r)
	}
	return out
}
