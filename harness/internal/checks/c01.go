package checks

import (
	"verifharness/internal/core"
	"verifharness/internal/gen"
)

// cnfCases: seeded random CNF problems in the semantic tier (n <= 8), over the configuration
// matrix {front end} x {certificate on/off} x {learned-clause limit default/small} x {restart knob}.
func cnfCases(env *core.Env, count int, cert func(i int) bool) []core.Case {
	r := env.Rand
	var res []core.Case
	fronts := []string{"slicenb", "dimacs", "slice"}
	for i := 0; i < count; i++ {
		nv := 1 + r.Intn(8)
		if r.Intn(30) == 0 {
			nv = 0
		}
		var clauses [][]int
		if nv > 0 {
			m := r.Intn(4*nv + 2)
			if r.Intn(2) == 0 { // near the 3-SAT threshold (mixed with a few binary clauses): conflicts
				nv = 5 + r.Intn(4)
				clauses = gen.RandKSAT(r, nv, int(3.8*float64(nv))+r.Intn(nv), 3)
				clauses = append(clauses, gen.RandKSAT(r, nv, r.Intn(3), 2)...)
			} else {
				clauses = gen.RandCNF(r, nv, m, 4, true)
			}
		}
		front := fronts[r.Intn(len(fronts))]
		n := nv
		if front == "slice" {
			n = gen.MaxVar(clauses)
		}
		reduceAt, restartEvery := 0, 0
		if r.Intn(2) == 0 {
			reduceAt = 2 + r.Intn(5)
		}
		if r.Intn(3) == 0 {
			restartEvery = 2 + r.Intn(4)
		}
		cfg := gen.Cfg(cert(i), reduceAt, restartEvery, false, false, true)
		res = append(res, gen.APICase(front, n, true, gen.ClauseCtors(clauses), false, nil, cfg, []gen.M{gen.Op("solve")}))
	}
	return res
}

func init() {
	register(&core.Check{
		ID:          "C01",
		TraceModule: "APITrace",
		Cases: func(env *core.Env) []core.Case {
			return cnfCases(env, env.Pick(1500, 20000), func(i int) bool { return i%2 == 0 })
		},
		Cover: func(t core.Case, cov map[string]int) bool {
			dec, prop, _ := coverAPI(t, cov)
			return dec+prop > 0
		},
		Rule:    "cases: CNF formulas (TLC-enumerated small scope + seeded random, n<=8, clause lengths 0..4 incl. empty/duplicate-literal/tautological clauses, declared-but-unused variables) x {ParseSliceNb, ParseSlice, DIMACS text} x {certificate on/off} x {learned-clause limit default/forced small} x {restart knob}; distinct = hash of the input; non-trivial = the search made at least one decision or one propagation (white-box events)",
		Require: []string{"reply.solve.SAT", "reply.solve.UNSAT", "front.dimacs", "front.slicenb", "cfg.cert", "wb.conflict", "wb.learn"},
	})
}
