package checks

import (
	"os"
	"time"

	"verifharness/internal/core"
	"verifharness/internal/gen"
)

// cnfCases: seeded random CNF problems in the semantic tier (n <= 8), over the configuration
// matrix {front end} x {certificate on/off} x {learned-clause limit default/small} x {restart knob}.
func cnfCases(env *core.Env, count int, cert func(i int) bool) []core.Case {
	r := env.Rand
	var res []core.Case
	fronts := []string{"slicenb", "dimacs", "slice"}
	for i := 0; i < count; i++ {
		nv := 1 + r.Intn(8)
		if r.Intn(30) == 0 {
			nv = 0
		}
		var clauses [][]int
		if nv > 0 {
			m := r.Intn(4*nv + 2)
			if r.Intn(5) < 2 { // chains of parse-time unit propagations
				nv = 4 + r.Intn(5)
				clauses = gen.ChainCNF(r, nv)
			} else if r.Intn(2) == 0 { // near the 3-SAT threshold (mixed with a few binary clauses): conflicts
				nv = 5 + r.Intn(4)
				clauses = gen.RandKSAT(r, nv, int(3.8*float64(nv))+r.Intn(nv), 3)
				clauses = append(clauses, gen.RandKSAT(r, nv, r.Intn(3), 2)...)
			} else {
				clauses = gen.RandCNF(r, nv, m, 4, true)
			}
		}
		if len(clauses) > 0 && r.Intn(3) == 0 { // a formula is a multiset: some clauses (unit clauses first) stated several times
			if r.Intn(2) == 0 { // make sure there is a fact to repeat
				clauses = append(clauses, []int{gen.RandLit(r, nv)})
			}
			for k := 0; k < 1+r.Intn(3); k++ {
				c := clauses[r.Intn(len(clauses))]
				for _, u := range clauses {
					if len(u) == 1 && r.Intn(2) == 0 {
						c = u
						break
					}
				}
				for x := 0; x < 1+r.Intn(3); x++ {
					clauses = append(clauses, append([]int{}, c...))
				}
			}
			if r.Intn(2) == 0 {
				clauses = gen.Shuffle(r, clauses)
			}
		}
		front := fronts[r.Intn(len(fronts))]
		n := nv
		if front == "slice" {
			n = gen.MaxVar(clauses)
		}
		reduceAt, restartEvery := 0, 0
		if r.Intn(2) == 0 {
			reduceAt = 2 + r.Intn(5)
		}
		if r.Intn(3) == 0 {
			restartEvery = 2 + r.Intn(4)
		}
		cfg := gen.Cfg(cert(i), reduceAt, restartEvery, false, false, true)
		res = append(res, gen.APICase(front, n, true, gen.ClauseCtors(clauses), false, nil, cfg, []gen.M{gen.Op("solve")}))
	}
	return res
}

// plantedCases: the local tier of C01. Planted 3-SAT (with a few binary clauses) around the threshold,
// 14..44 variables: many conflicts, learned clauses reused as reasons, forced restarts and reductions.
// The witness makes the verdict decidable without model sets (CertTrace evaluates it); a formula with
// few models is the most sensitive input there is to an unsound learned clause, which almost surely
// excludes the planted model. The recorded searches also go through the mechanism pass.
func plantedCases(env *core.Env, count int) []core.Case {
	r := env.Rand
	var res []core.Case
	for i := 0; i < count; i++ {
		nv := 14 + r.Intn(env.Pick(22, 31))
		ratio := 3.9 + r.Float64()*1.6
		clauses, w := gen.PlantedKSAT(r, nv, int(ratio*float64(nv)), 3)
		if r.Intn(2) == 0 {
			for k := 0; k < 1+r.Intn(nv/3); k++ { // binary clauses consistent with the witness
				a, b := 1+r.Intn(nv), 1+r.Intn(nv)
				if a == b {
					continue
				}
				la, lb := a, b
				if !w[a-1] {
					la = -a
				}
				if r.Intn(2) == 0 {
					lb = -lb
				}
				clauses = append(clauses, []int{la, lb})
			}
			clauses = gen.Shuffle(r, clauses)
		}
		cfg := gen.Cfg(i%3 == 0, []int{0, 3, 6}[r.Intn(3)], []int{0, 4}[r.Intn(2)], false, false, true)
		c := gen.APICase([]string{"slicenb", "dimacs"}[r.Intn(2)], nv, true, gen.ClauseCtors(clauses), false, nil, cfg, []gen.M{gen.Op("solve")})
		c["tm"], c["witness"] = "CertTrace", w
		res = append(res, c)
	}
	// sizes random formulas never reach: a planted core in which conflicts occur, next to a pair of clauses
	// (x_1 v ... v x_k v a), (x_1 v ... v x_k v -a) over k fresh variables, k in the hundreds and thousands
	// (conflict analyses and learned clauses of that width); one of the x is planted true
	res = append(res, wideClauseCases(env, env.Pick(160, 1500), false)...)
	return res
}

// wideClauseCases: see plantedCases; with cert the emitted lines are checked as well (C06).
func wideClauseCases(env *core.Env, count int, cert bool) []core.Case {
	r := env.Rand
	var res []core.Case
	for i := 0; i < count; i++ {
		ny := 18 + r.Intn(16)
		nx := []int{120, 1001 + r.Intn(400), 1001 + r.Intn(400), 2050 + r.Intn(100)}[r.Intn(4)]
		clauses, w := gen.PlantedKSAT(r, ny, int((4.3+1.0*r.Float64())*float64(ny)), 3)
		a := 1 + r.Intn(ny)
		w1, w2 := make([]int, 0, nx+1), make([]int, 0, nx+1)
		for v := ny + 1; v <= ny+nx; v++ {
			w1, w2 = append(w1, v), append(w2, v)
			w = append(w, false)
		}
		w[ny+r.Intn(nx)] = true
		w1, w2 = append(w1, a), append(w2, -a)
		// a few short clauses tie some of the fresh variables (the first and last ones more often) to the
		// core, so that the wide learned clauses are used again by later conflicts; all true under the witness
		for j := 2 + r.Intn(8); j > 0; j-- {
			var c []int
			for x := 1 + r.Intn(2); x > 0; x-- {
				v := ny + 1 + r.Intn(nx)
				switch r.Intn(3) {
				case 0:
					v = ny + 1 + r.Intn(3)
				case 1:
					v = ny + nx - r.Intn(3)
				}
				if r.Intn(2) == 0 {
					v = -v
				}
				c = append(c, v)
			}
			for x := 1 + r.Intn(2); x > 0; x-- {
				c = append(c, gen.RandLit(r, ny))
			}
			ok := false
			for _, l := range c {
				v := l
				if v < 0 {
					v = -v
				}
				if w[v-1] == (l > 0) {
					ok = true
				}
			}
			if !ok {
				c[0] = -c[0]
			}
			clauses = append(clauses, c)
		}
		clauses = append([][]int{w1, w2}, clauses...)
		cfg := gen.Cfg(cert, 0, 0, false, false, false)
		c := gen.APICase([]string{"slicenb", "dimacs"}[r.Intn(2)], ny+nx, true, gen.ClauseCtors(clauses), false, nil, cfg, []gen.M{gen.Op("solve")})
		c["tm"], c["witness"] = "CertTrace", w
		res = append(res, c)
	}
	return res
}

// cdclDesigns: the design-level runs shared by C01 and C06. Every initial state (formula) of the
// exhaustive CDCL model is turned into cases for the real solver.
func cdclDesigns(allCert bool) []core.Design {
	actions := []string{"Propagate", "Conflict", "Decide", "Explain", "Minimise", "Backjump", "Fail", "Succeed", "Restart", "Forget"}
	toCases := func(env *core.Env, emitted []core.Case) []core.Case {
		var res []core.Case
		for i, e := range emitted {
			nv := int(e["n"].(float64))
			var clauses [][]int
			for _, c := range e["F"].([]any) {
				var cl []int
				for _, l := range c.([]any) {
					cl = append(cl, int(l.(float64)))
				}
				clauses = append(clauses, cl)
			}
			if !env.Quick() && i%2 == 0 {
				clauses = gen.Shuffle(env.Rand, clauses)
			}
			a := gen.APICase("slicenb", nv, true, gen.ClauseCtors(clauses), false, nil, gen.Cfg(true, 2, 2, false, false, true), []gen.M{gen.Op("solve")})
			b := gen.APICase("dimacs", nv, true, gen.ClauseCtors(clauses), false, nil, gen.Cfg(allCert, 0, 0, false, false, true), []gen.M{gen.Op("solve")})
			a["wbStrict"], b["wbStrict"] = allCert, allCert
			res = append(res, a, b)
		}
		return res
	}
	simp := func(env *core.Env, emitted []core.Case) []core.Case {
		var res []core.Case
		for i, e := range emitted {
			nv := int(e["n"].(float64))
			var clauses [][]int
			for _, c := range e["F"].([]any) {
				clauses = append(clauses, toInts(c))
			}
			front := "dimacs"
			if i%3 == 0 {
				front = "slicenb"
			}
			c := gen.APICase(front, nv, true, gen.ClauseCtors(clauses), false, nil, gen.Cfg(allCert, 0, 0, false, false, true), []gen.M{gen.Op("solve")})
			c["wbStrict"] = allCert
			res = append(res, c)
		}
		limit := env.Pick(5000, 60000)
		if v := os.Getenv("VERIF_SIMPLIFY_ALL"); v != "" {
			limit = len(res)
		}
		if len(res) > limit {
			env.Rand.Shuffle(len(res), func(i, j int) { res[i], res[j] = res[j], res[i] })
			res = res[:limit]
		}
		return res
	}
	ds := []core.Design{
		{Name: "simplify", Module: "Simplify", Cfg: "Simplify_quick.cfg", Tier: "quick", ToCases: simp, Timeout: 10 * time.Minute, XmxMB: 8000},
		{Name: "simplify", Module: "Simplify", Cfg: "Simplify_thorough.cfg", Tier: "thorough", ToCases: simp, Timeout: 40 * time.Minute, XmxMB: 16000},
		{Name: "simplify-prefix", Module: "Simplify", Cfg: "Simplify_prefix.cfg", Workers: 2, XmxMB: 4000, Timeout: 10 * time.Minute, ExpectViolation: "Fixpoint"},
		{Name: "cdcl", Module: "CDCL", Cfg: "CDCL_quick.cfg", Tier: "quick", ToCases: toCases, Timeout: 10 * time.Minute}, // action coverage is gated in the thorough tier (it doubles the run time)
		{Name: "cdcl", Module: "CDCL", Cfg: "CDCL_thorough.cfg", Tier: "thorough", Coverage: true, MustCover: actions, ToCases: toCases, Timeout: 40 * time.Minute, XmxMB: 24000},
		{Name: "cdcl-live", Module: "CDCL", Cfg: "CDCL_live.cfg", Timeout: 5 * time.Minute},
	}
	if allCert { // C06: the certificate as the checker sees it (lines follow from the formula and the earlier lines)
		ds = append(ds, core.Design{Name: "cdcl-certificate", Module: "CDCLCert", Cfg: "CDCLCert_late.cfg", Workers: 6, XmxMB: 8000, Timeout: 20 * time.Minute})
	}
	return ds
}

func init() {
	register(&core.Check{
		ID:          "C01",
		Amplify:     amplifyAPI,
		Designs:     cdclDesigns(false),
		TraceModule: "APITrace",
		Mech:        &core.Mech{Module: "SearchTrace", Project: mechAPI, Quick: 600, Thorough: 8000},
		Cases: func(env *core.Env) []core.Case {
			res := cnfCases(env, env.Pick(2000, 25000), func(i int) bool { return i%2 == 0 })
			res = append(res, plantedCases(env, env.Pick(400, 6000))...)
			return append(res, scanCandidates(env, "cnf", env.Pick(12000, 200000), false, scanCNF(false))...)
		},
		Cover: func(t core.Case, cov map[string]int) bool {
			dec, prop, _ := coverAPI(t, cov)
			return dec+prop > 0
		},
		Rule:    "cases: CNF formulas (TLC-enumerated small scope + seeded random, n<=8, clause lengths 0..4 incl. empty/duplicate-literal/tautological clauses, declared-but-unused variables) x {ParseSliceNb, ParseSlice, DIMACS text} x {certificate on/off} x {learned-clause limit default/forced small} x {restart knob}; distinct = hash of the input; non-trivial = the search made at least one decision or one propagation (white-box events)",
		Require: []string{"reply.solve.SAT", "reply.solve.UNSAT", "front.dimacs", "front.slicenb", "cfg.cert", "wb.conflict", "wb.learn"},
	})
}
