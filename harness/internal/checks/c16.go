package checks

import (
	"fmt"
	"os"
	"path/filepath"
	"strings"
	"time"

	"encoding/json"

	"verifharness/internal/core"
	"verifharness/internal/gen"
)

// concGroups builds groups of k data-independent sub-cases for concurrent execution.
func concGroups(env *core.Env, groups int) []core.Case {
	r := env.Rand
	var res []core.Case
	for g := 0; g < groups; g++ {
		k := 2 + r.Intn(5)
		var subs []gen.M
		// one group in three uses a single package only (state shared inside one package shows when two
		// of its own entry points overlap), the others mix the packages
		only := -1
		if g%3 == 0 {
			only = []int{0, 3, 4, 5, 6, 6, 7, 8, 8}[r.Intn(9)]
		}
		for j := 0; j < k; j++ {
			var c gen.M
			pick := r.Intn(9)
			if only >= 0 {
				pick = only
			}
			switch pick {
			case 0, 1, 2: // CNF with many conflicts (local tier): two solvers learning at the same time
				nv := 25 + r.Intn(25)
				clauses := gen.RandKSAT(r, nv, int(4.26*float64(nv)), 3)
				c = gen.APICase("slicenb", nv, true, gen.ClauseCtors(clauses), false, nil, gen.Cfg(false, 0, 0, false, false, false), []gen.M{gen.Op("solve")})
				c["tm"] = "CertTrace"
			case 3: // small CNF, semantic tier, counted
				nv := 4 + r.Intn(4)
				clauses := gen.RandKSAT(r, nv, 2+r.Intn(2*nv), 3)
				c = gen.APICase("slicenb", nv, true, gen.ClauseCtors(clauses), false, nil, gen.Cfg(false, 0, 0, false, false, false), []gen.M{gen.Op("count")})
				c["tm"] = "APITrace"
			case 4: // optimisation with a result channel
				front, n, strict, cons, obj := coveringProblem(r)
				if r.Intn(2) == 0 {
					front, n, strict, cons, obj = starsProblem(r)
				}
				c = gen.APICase(front, n, strict, cons, true, obj, gen.Cfg(false, 0, 0, r.Intn(3) == 0, false, false), []gen.M{gen.OpChan("optimal", true)})
				c["cfg"].(gen.M)["cap"] = r.Intn(3)
				c["cfg"].(gen.M)["delayUs"] = []int{0, 100}[r.Intn(2)]
				c["tm"] = "APITrace"
			case 5: // MaxSAT through WCNF (forwarding goroutine)
				n := 2 + r.Intn(4)
				var cons []gen.M
				for x := 0; x < 2+r.Intn(5); x++ {
					cons = append(cons, msCons(r, n, true))
				}
				c = wcnfCase(r, n, cons)
				c["ev"] = []gen.M{gen.OpChan("optimal", true)}
				c["tm"] = "MaxSatTrace"
			case 6: // MUS extraction / unsat subset (starts a solver goroutine internally)
				n, clauses := unsatBiasedCNF(r, 5)
				if r.Intn(2) == 0 { // real certificates with several lines
					n = 6 + r.Intn(3)
					clauses = gen.RandKSAT(r, n, int(4.6*float64(n)), 3)
				}
				ev := []gen.M{{"op": "mus", "method": []string{"MUSDeletion", "MUSInsertion", "MUSMaxSat"}[r.Intn(3)]}, {"op": "subset"}}
				switch r.Intn(3) {
				case 0: // the certificate checker on the solver's own certificate, intact or damaged
					ev = []gen.M{{"op": "check", "entry": []string{"reader", "chan"}[r.Intn(2)], "src": "solver", "cert": [][]int{}, "mut": []string{"none", "drop", "flip"}[r.Intn(3)], "seed": r.Intn(1 << 20)}, {"op": "subset"}}
				case 1:
					ev = append(ev, gen.M{"op": "check", "entry": "reader", "src": "solver", "cert": [][]int{}, "mut": "none", "seed": r.Intn(1 << 20)})
				}
				c = gen.M{"drv": "explain", "n": n, "clauses": clauses, "ev": ev, "tm": "ExplainTrace"}
			case 8: // a short history (AppendClause, Assume, Solve) on a tiny problem, often one that is refuted
				// when it is parsed: whatever such solvers share must not carry one user's clauses to another
				nv := 2 + r.Intn(3)
				clauses := gen.RandCNF(r, nv, r.Intn(2*nv+1), 3, false)
				if r.Intn(2) == 0 {
					x := gen.RandLit(r, nv)
					clauses = append(clauses, []int{x}, []int{-x})
				}
				var ev []gen.M
				// each history stays inside the alphabet of ONE property: Solve / AppendClause (C09) or rounds of
				// Assume + Solve (C10); a history mixing the two is outside both statements
				appendStyle := r.Intn(2) == 0
				for st := 1 + r.Intn(3); st > 0; st-- {
					if appendStyle {
						if r.Intn(3) > 0 {
							ev = append(ev, gen.M{"op": "append", "c": gen.Clause(gen.RandClause(r, nv, 1+r.Intn(2), true)...)})
						}
					} else {
						ev = append(ev, gen.M{"op": "assume", "ls": gen.RandClause(r, nv, 1+r.Intn(2), true)})
					}
					ev = append(ev, gen.Op("solve"))
				}
				c = gen.APICase("slicenb", nv, true, gen.ClauseCtors(clauses), false, nil, gen.Cfg(false, 0, 0, false, false, false), ev)
				c["tm"] = "APITrace"
			default: // boolean formula
				k := 2 + r.Intn(4)
				f := gen.RandFormula(r, k, 2+r.Intn(2), 1, 1, 4)
				c = gen.M{"drv": "bf", "k": k, "names": gen.Names(k), "hasF": true, "f": f, "ev": []gen.M{gen.Op("solve")}, "tm": "BFTrace"}
			}
			subs = append(subs, c)
		}
		lanes := 0
		if g%2 == 1 && k >= 4 { // fewer goroutines than instances: each goroutine runs several instances in a row
			lanes = 2 + r.Intn(k/2)
		}
		res = append(res, gen.M{"drv": "conc", "subs": subs, "lanes": lanes, "repeat": 0, "budgetMs": 30000, "ev": []gen.M{}})
	}
	// instances that end through rarely taken exits, each followed in the same goroutine by small instances
	// that are counted: PB problems the cutting-planes strategy refutes by search (selected by drive.Scan
	// on that behaviour), then CNF problems with at most half as many variables
	cpu := scanCandidatesN(env, "cpunsat", env.Pick(6000, 40000), true, env.Pick(100, 600), env.Pick(1600, 9600), scanPB)
	for len(cpu) >= 20 {
		take := 100
		if take > len(cpu) {
			take = len(cpu)
		}
		var subs []gen.M
		for _, m := range cpu[:take] {
			m["filler"] = true // executed, not validated: it is there for what it may leave behind
			subs = append(subs, m)
			nv := 4 + r.Intn(3)
			clauses := gen.RandKSAT(r, nv, 2*nv, 2+r.Intn(2))
			c := gen.APICase("slicenb", nv, true, gen.ClauseCtors(clauses), false, nil, gen.Cfg(false, 0, 0, false, false, false), []gen.M{gen.Op("count")})
			c["tm"] = "APITrace"
			subs = append(subs, c)
		}
		cpu = cpu[take:]
		res = append(res, gen.M{"drv": "conc", "subs": subs, "lanes": 2 * (1 + r.Intn(2)), "repeat": 0, "budgetMs": 60000, "ev": []gen.M{}})
	}
	return res
}

func init() {
	register(&core.Check{
		ID:          "C16",
		TraceModule: "IsolationTrace",
		Designs: []core.Design{
			{Name: "isolation-private", Module: "Isolation", Cfg: "Isolation_private.cfg", Workers: 2, XmxMB: 2000, Timeout: 5 * time.Minute,
				ToCases: func(env *core.Env, emitted []core.Case) []core.Case {
					var res []core.Case
					for _, e := range emitted {
						for rep := 0; rep < env.Pick(2, 10); rep++ {
							var probs []gen.M
							for i := 0; i < int(e["k"].(float64)); i++ {
								nv := 14 + env.Rand.Intn(6)
								probs = append(probs, gen.M{"n": nv, "clauses": gen.RandKSAT(env.Rand, nv, int(4.4*float64(nv)), 3)})
							}
							res = append(res, gen.M{"drv": "iso", "k": e["k"], "c": e["c"], "sched": e["sched"], "problems": probs, "ev": []gen.M{}})
						}
					}
					return res
				}},
			{Name: "isolation-shared", Module: "Isolation", Cfg: "Isolation_shared.cfg", Workers: 1, XmxMB: 2000, Timeout: 5 * time.Minute, ExpectViolation: "NoInterference"},
			{Name: "subsetsync-drain", Module: "SubsetSync", Cfg: "SubsetSync_drain.cfg", Workers: 2, XmxMB: 2000, Timeout: 5 * time.Minute},
			{Name: "subsetsync-nodrain", Module: "SubsetSync", Cfg: "SubsetSync_nodrain.cfg", Workers: 1, XmxMB: 2000, Timeout: 5 * time.Minute, ExpectViolation: "NoRace"},
		},
		Cover: func(t core.Case, cov map[string]int) bool {
			for _, e := range evs(t) {
				cov["iso."+s(e, "op")]++
				if s(e, "op") == "iso" {
					return true
				}
			}
			return false
		},
		NeedRace:    true,
		Rule:        "cases: groups of 2..6 data-independent uses of the packages solver (CNF with many conflicts, counting, optimisation with a result channel, with / without cutting planes), maxsat (WCNF, forwarding goroutine), explain (MUS extraction, unsat subset) and bf, each group run concurrently (one goroutine per use) in a driver built with -race from /repo; every reply is validated by the property's own oracle (same trace specifications as C01, C03, C04, C05, C07, C11), a race report or a crash is a violation; distinct = hash of the group; non-trivial = the group has at least two solver uses that reach conflict analysis",
		Assumptions: []string{"race freedom of memory the specification cannot observe is decided by the Go race detector acting as recorder of the happens-before relation (a report is a real-code behaviour; absence of a report covers only the schedules that occurred)"},
		Extra: func(env *core.Env, res *core.Result) error {
			groups := concGroups(env, env.Pick(60, 800))
			core.AssignIDs("grp-", groups)
			// the race detector stops the process at the first report: the orchestrator sees a crash event
			traces, err := core.ExecuteEnv(env, env.Race, groups, 30*time.Second, "conc", []string{"GORACE=halt_on_error=1 exitcode=66"}, 4)
			if err != nil {
				return err
			}
			var flat []core.Case
			owner := map[string]int{}
			for gi, t := range traces {
				subs, _ := t["subs"].([]any)
				evl, _ := t["ev"].([]any)
				crashed := false
				for _, e := range evl {
					if em, ok := e.(map[string]any); ok && (em["op"] == "crash" || em["op"] == "timeout") {
						crashed = true
						msg, _ := em["msg"].(string)
						stack, _ := em["stack"].(string)
						why := "crash"
						if strings.Contains(stack, "DATA RACE") || strings.Contains(msg, "DATA RACE") {
							why = "data-race"
							res.Cov["race.reports"]++
						}
						if em["op"] == "timeout" {
							why = "timeout"
						}
						path := filepath.Join("replays", fmt.Sprintf("C16-%s.json", t["id"]))
						os.MkdirAll(filepath.Join(env.Root, "replays"), 0o755)
						rec := map[string]any{"property": "C16", "kind": "conc", "clause": why, "case": groups[gi], "trace": t}
						bts, _ := json.MarshalIndent(rec, "", " ")
						os.WriteFile(filepath.Join(env.Root, path), bts, 0o644)
						res.Violations = append(res.Violations, core.Violation{Why: why + ": " + firstLines(stack, 12), Case: groups[gi], Trace: t, Replay: path})
					}
				}
				if crashed {
					continue
				}
				nconf := 0
				for si, sraw := range subs {
					st, _ := sraw.(map[string]any)
					if st == nil {
						continue
					}
					if b(st, "filler") {
						res.Cov["conc.fillers"]++
						continue
					}
					st["id"] = fmt.Sprintf("%s.%d", t["id"], si)
					owner[st["id"].(string)] = gi
					flat = append(flat, st)
					res.Cov["conc.sub."+s(st, "drv")]++
					if s(st, "tm") == "CertTrace" {
						nconf++
					}
				}
				res.Evaluations++
				res.Cov["conc.groups"]++
				if nconf >= 2 {
					b, _ := json.Marshal(groups[gi]["subs"])
					res.Nontrivial[fmt.Sprintf("%x", len(b))+string(b[:min(len(b), 64)])] = true
				}
			}
			bad, st, err := core.ValidateByModule(env, "APITrace", flat, "conc")
			if err != nil {
				return err
			}
			res.States += st.Distinct
			res.Transitions += st.Generated
			rejected := map[string]bool{}
			for _, bd := range bad {
				if strings.HasPrefix(bd.Why, "diag:") || strings.HasPrefix(bd.Why, "kf:") {
					continue
				}
				rejected[bd.Case] = true
				gi := owner[bd.Case]
				path := filepath.Join("replays", fmt.Sprintf("C16-%s.json", traces[gi]["id"]))
				rec := map[string]any{"property": "C16", "kind": "conc", "clause": bd.Why, "case": groups[gi], "trace": traces[gi]}
				bts, _ := json.MarshalIndent(rec, "", " ")
				os.MkdirAll(filepath.Join(env.Root, "replays"), 0o755)
				os.WriteFile(filepath.Join(env.Root, path), bts, 0o644)
				res.Violations = append(res.Violations, core.Violation{Why: "a reply under concurrency is wrong: " + bd.Why + " (" + bd.Case + ")", Replay: path})
			}
			for _, t := range flat {
				res.TraceEvents += len(evs(t))
				if !rejected[t["id"].(string)] {
					res.Accepted++
				}
			}
			if len(res.Samples) == 0 && len(traces) > 0 {
				b, _ := json.Marshal(groups[0])
				if len(b) > 1500 {
					b = b[:1500]
				}
				res.Samples = append(res.Samples, string(b))
			}
			env.Logf("%d concurrent groups (%d uses) run under the race detector, %d replies validated, %d violations", len(traces), len(flat), len(flat)-len(rejected), len(res.Violations))
			return nil
		},
		Require: []string{"iso.iso", "conc.groups", "conc.sub.api", "conc.sub.maxsat", "conc.sub.explain", "conc.sub.bf"},
	})
}

func firstLines(s string, n int) string {
	l := strings.Split(s, "\n")
	if len(l) > n {
		l = l[:n]
	}
	return strings.Join(l, " | ")
}
