package checks

import (
	"math/rand"
	"time"

	"verifharness/internal/core"
	"verifharness/internal/gen"
)

func msCons(r *rand.Rand, n int, wcnf bool) gen.M {
	k := 1 + r.Intn(min(n, 4))
	lits := gen.DistinctLits(r, n, k)
	weight := 0
	if r.Intn(3) > 0 {
		weight = 1 + r.Intn(3)
	}
	var c gen.M
	switch x := r.Intn(6); {
	case wcnf || x < 3:
		if wcnf && r.Intn(6) == 0 {
			lits = gen.RandClause(r, n, 1+r.Intn(3), false) // WCNF clauses may repeat literals
		}
		c = gen.Clause(lits...)
	case x < 5:
		c = gen.Ctor("atleast", lits, nil, r.Intn(k+2)) // 0 .. k+1
	default:
		w := make([]int, k)
		sum := 0
		for i := range w {
			w[i] = 1 + r.Intn(3)
			sum += w[i]
		}
		c = gen.Ctor("gteq", lits, w, r.Intn(sum+2))
	}
	c["weight"] = weight
	return c
}

// maxsatCases: every instance enumerated by MaxSat.tla goes through maxsat.New(...).Solve() and,
// when all its constraints are clauses, also through the WCNF route.
func maxsatCases(env *core.Env, emitted []core.Case) []core.Case {
	var res []core.Case
	for i, e := range emitted {
		if env.Quick() && i%2 == 1 {
			continue
		}
		var cons []gen.M
		allClauses := true
		for _, it := range e["inst"].([]any) {
			im := it.(map[string]any)
			cm := im["c"].(map[string]any)
			lits, w, d := toInts(cm["lits"]), toInts(cm["w"]), int(cm["d"].(float64))
			kind := "gteq"
			ones := true
			for _, x := range w {
				if x != 1 {
					ones = false
				}
			}
			if ones && d == 1 {
				kind = "clause"
			} else if ones {
				kind = "atleast"
			}
			if kind != "clause" {
				allClauses = false
			}
			c := gen.Ctor(kind, lits, w, d)
			c["weight"] = int(im["weight"].(float64))
			cons = append(cons, c)
		}
		c := gen.M{"drv": "maxsat", "route": "api", "n": 2, "cons": cons, "top": 0,
			"cfg": gen.M{"layout": 0, "layoutSeed": 0, "cap": 0}, "ev": []gen.M{gen.Op("solve")}}
		res = append(res, c)
		if allClauses {
			w := wcnfCase(env.Rand, 2, cons)
			res = append(res, deepCopy(w))
		}
	}
	return res
}

// wcnfCase wraps weighted clauses into a WCNF case: declared variable count >= highest variable
// used, top weight present whenever there is a hard clause.
func wcnfCase(r *rand.Rand, n int, cons []gen.M) gen.M {
	c := gen.M{"drv": "maxsat", "route": "wcnf", "cons": cons,
		"cfg": gen.M{"layout": 0, "layoutSeed": 0, "cap": r.Intn(3)}}
	c["n"] = n + r.Intn(3)
	top := 0
	hasHard := false
	maxW := 0
	for _, k := range cons {
		if k["weight"].(int) == 0 {
			hasHard = true
		}
		if k["weight"].(int) > maxW {
			maxW = k["weight"].(int)
		}
	}
	if hasHard || r.Intn(2) == 0 {
		top = maxW + 1 + r.Intn(3)
	}
	c["top"] = top
	c["ev"] = []gen.M{gen.OpChan("optimal", r.Intn(2) == 0)}
	return c
}

func init() {
	register(&core.Check{
		ID: "C04",
		Designs: []core.Design{
			{Name: "maxsat-encoding", Module: "MaxSat", Cfg: "MaxSat_intended.cfg", Workers: 8, XmxMB: 6000, Timeout: 10 * time.Minute, ToCases: maxsatCases},
			{Name: "maxsat-encoding-one", Module: "MaxSat", Cfg: "MaxSat_ascoded.cfg", Workers: 1, XmxMB: 2000, Timeout: 5 * time.Minute, ExpectViolation: "EncodingCorrect"},
		},
		TraceModule: "MaxSatTrace",
		Cases: func(env *core.Env) []core.Case {
			r := env.Rand
			var res []core.Case
			for i := 0; i < env.Pick(1500, 20000); i++ {
				n := 1 + r.Intn(6)
				m := 1 + r.Intn(6)
				wcnf := r.Intn(2) == 0
				var cons []gen.M
				for j := 0; j < m; j++ {
					cons = append(cons, msCons(r, n, wcnf))
				}
				c := gen.M{"drv": "maxsat", "n": n, "cons": cons, "top": 0,
					"cfg": gen.M{"layout": 0, "layoutSeed": 0, "cap": r.Intn(3)}}
				if wcnf {
					c = wcnfCase(r, n, cons)
				} else {
					c["route"] = "api"
					c["ev"] = []gen.M{gen.Op("solve")}
					if r.Intn(2) == 0 { // the same constraint values handed to New a second time
						c["ev"] = []gen.M{gen.Op("solve"), gen.Op("solve")}

						if r.Intn(2) == 0 && n >= 2 { // with a hard PB constraint whose coefficients are not sorted
							k := 2 + r.Intn(min(n, 4)-1)
							lits := gen.DistinctLits(r, n, k)
							w := make([]int, k)
							sum := 0
							for j := range w {
								w[j] = 1 + j + r.Intn(2) // increasing
								sum += w[j]
							}
							hard := gen.Ctor("gteq", lits, w, 1+r.Intn(sum))
							hard["weight"] = 0
							c["cons"] = append(cons, hard)
						}
					}
				}
				res = append(res, c)
			}
			res = append(res, scanCandidates(env, "maxsat", env.Pick(15000, 250000), false, scanMaxSat)...)
			return res
		},
		Cover: func(t core.Case, cov map[string]int) bool {
			cov["route."+s(t, "route")]++
			soft := 0
			for _, c := range sub(t, "cons") {
				if n(c, "weight") > 0 {
					soft++
					cov["soft."+s(c, "k")]++
				} else {
					cov["hard."+s(c, "k")]++
				}
			}
			nt := false
			for _, e := range evs(t) {
				cov["op."+s(e, "op")]++
				if s(e, "op") == "solve" && b(e, "isNil") || s(e, "status") == "UNSAT" {
					cov["reply.unsat"]++
				}
				if n(e, "cost") > 0 {
					nt = true
					cov["reply.cost>0"]++
				}
				if b(e, "chan") {
					cov["wcnf.chan"]++
				}
			}
			return nt && soft > 0
		},
		Rule:    "cases: weighted partial MaxSAT instances with 1..6 constraints over n<=6 user variables, each hard or soft (weights 1..3), shapes clause / cardinality (implicit coefficients, degree 0..k+1) / PB, through maxsat.New(...).Solve(); and WCNF texts (declared variable count >= highest used, with / without top weight) through ParseWCNF(...).Optimal(nil | chan); non-trivial = the optimum violates at least one soft constraint",
		Require: []string{"route.api", "route.wcnf", "soft.atleast", "soft.gteq", "soft.clause", "reply.unsat", "reply.cost>0", "wcnf.chan"},
	})
}
