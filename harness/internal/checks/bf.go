package checks

import (
	"time"

	"verifharness/internal/core"
	"verifharness/internal/gen"
)

func hasOp(f map[string]any, op string) bool {
	if s(f, "op") == op {
		return true
	}
	for _, k := range sub(f, "kids") {
		if hasOp(k, op) {
			return true
		}
	}
	return false
}

func uniqSizes(f map[string]any, cov map[string]int) {
	if s(f, "op") == "uniq" {
		k := len(sub(f, "kids"))
		if k >= 5 {
			cov["uniq.size>=5"]++
		} else {
			cov["uniq.size<5"]++
		}
	}
	for _, k := range sub(f, "kids") {
		uniqSizes(k, cov)
	}
}

// fixAST converts the JSON of a TLA+ formula record into the driver's AST (kids always a list).
func fixAST(v any) gen.M {
	m := v.(map[string]any)
	kids := []gen.M{}
	if l, ok := m["kids"].([]any); ok {
		for _, k := range l {
			kids = append(kids, fixAST(k))
		}
	}
	return gen.M{"op": m["op"], "i": int(m["i"].(float64)), "kids": kids}
}

func bfDesigns(op string) []core.Design {
	toCases := func(env *core.Env, emitted []core.Case) []core.Case {
		var res []core.Case
		for _, e := range emitted {
			k := int(e["k"].(float64))
			res = append(res, gen.M{"drv": "bf", "k": k, "names": gen.Names(k), "hasF": true, "f": fixAST(e["f"]), "ev": []gen.M{gen.Op(op)}})
		}
		if len(res) > 12000 {
			env.Rand.Shuffle(len(res), func(i, j int) { res[i], res[j] = res[j], res[i] })
			res = res[:12000]
		}
		return res
	}
	return []core.Design{
		{Name: "bfgen", Module: "BFGen", Cfg: "BFGen_quick.cfg", Tier: "quick", Workers: 8, XmxMB: 6000, Timeout: 10 * time.Minute, ToCases: toCases},
		{Name: "bfgen", Module: "BFGen", Cfg: "BFGen_thorough.cfg", Tier: "thorough", Workers: 16, XmxMB: 12000, Timeout: 30 * time.Minute, ToCases: toCases},
	}
}

func parseDesigns() []core.Design {
	toCases := func(env *core.Env, emitted []core.Case) []core.Case {
		var good, bad []core.Case
		for _, e := range emitted {
			toks := []string{}
			for _, t := range e["ts"].([]any) {
				toks = append(toks, t.(string))
			}
			c := gen.M{"drv": "bf", "k": 2, "names": []string{"a", "b"}, "hasF": false, "f": gen.M{"op": "F", "i": 0, "kids": []gen.M{}}, "kind": "enumerated",
				"ev": []gen.M{{"op": "parse", "tokens": toks, "seed": env.Rand.Intn(1 << 20), "layout": env.Rand.Intn(2)}}}
			if ok, _ := e["ok"].(bool); ok {
				good = append(good, c)
			} else {
				bad = append(bad, c)
			}
		}
		limit := env.Pick(3000, 40000)
		if len(bad) > limit {
			env.Rand.Shuffle(len(bad), func(i, j int) { bad[i], bad[j] = bad[j], bad[i] })
			bad = bad[:limit]
		}
		return append(good, bad...)
	}
	return []core.Design{
		{Name: "parsegen", Module: "BFParseGen", Cfg: "BFParseGen_quick.cfg", Tier: "quick", Workers: 12, XmxMB: 6000, Timeout: 10 * time.Minute, ToCases: toCases},
		{Name: "parsegen", Module: "BFParseGen", Cfg: "BFParseGen_thorough.cfg", Tier: "thorough", Workers: 16, XmxMB: 12000, Timeout: 40 * time.Minute, ToCases: toCases},
	}
}

func init() {
	register(&core.Check{
		ID:          "C11",
		Designs:     bfDesigns("solve"),
		TraceModule: "BFTrace",
		Cases: func(env *core.Env) []core.Case {
			r := env.Rand
			var res []core.Case
			for i := 0; i < env.Pick(3000, 40000); i++ {
				k := 1 + r.Intn(6)
				maxU := 6
				if r.Intn(4) == 0 { // larger exactly-one groups (the grid encoding changes shape with the size)
					k = 7 + r.Intn(3)
					maxU = k
				}
				f := gen.RandFormula(r, k, 1+r.Intn(4), 1, 2, maxU)
				if k >= 7 && r.Intn(2) == 0 { // a large group constrained by a few literals
					kids := []gen.M{gen.UniqAll(r, k)}
					for j := 0; j < 1+r.Intn(3); j++ {
						kids = append(kids, gen.RandFormula(r, k, r.Intn(2), 1, 0, 0))
					}
					f = gen.M{"op": "and", "i": 0, "kids": kids}
				}
				if r.Intn(6) == 0 { // a large group under and / or inside an equivalence
					k = 5 + r.Intn(3)
					grp := gen.M{"op": []string{"and", "or"}[r.Intn(2)], "i": 0, "kids": []gen.M{gen.UniqAll(r, k), gen.RandFormula(r, k, r.Intn(2), 1, 0, 0)}}
					other := gen.RandFormula(r, k, r.Intn(2), 1, 0, 0)
					f = gen.M{"op": []string{"eq", "xor", "imp"}[r.Intn(3)], "i": 0, "kids": []gen.M{other, grp}}
					if r.Intn(2) == 0 {
						f = gen.M{"op": f["op"], "i": 0, "kids": []gen.M{grp, other}}
					}
				}
				if r.Intn(5) == 0 {
					// one row of the truth table: a formula over an exactly-one group at any polarity, conjoined with a
					// literal for EVERY variable; rows with few true variables (0, 1, 2: the boundary of "exactly one")
					// and with the last listed variables true are drawn more often than the others
					k = 5 + r.Intn(4)
					grp := gen.UniqAll(r, k)
					var g gen.M
					switch r.Intn(5) {
					case 0:
						g = gen.M{"op": "not", "i": 0, "kids": []gen.M{grp}}
					case 1:
						g = gen.M{"op": "imp", "i": 0, "kids": []gen.M{grp, gen.RandFormula(r, k, 1, 1, 0, 0)}}
					case 2:
						g = gen.M{"op": "xor", "i": 0, "kids": []gen.M{grp, gen.RandFormula(r, k, 1, 1, 0, 0)}}
					case 3:
						g = gen.M{"op": "eq", "i": 0, "kids": []gen.M{gen.RandFormula(r, k, 1, 1, 0, 0), grp}}
					default:
						g = grp
					}
					gk, _ := grp["kids"].([]gen.M)
					val := make([]bool, k+1)
					nTrue := r.Intn(4)
					for x := 0; x < nTrue && len(gk) > 0; x++ {
						pick := len(gk) - 1 - r.Intn(min(3, len(gk))) // among the last listed
						if r.Intn(3) == 0 {
							pick = r.Intn(len(gk))
						}
						val[gk[pick]["i"].(int)] = true
					}
					kids := []gen.M{g}
					for v := 1; v <= k; v++ {
						l := gen.M{"op": "v", "i": v, "kids": []gen.M{}}
						if !val[v] {
							l = gen.M{"op": "not", "i": 0, "kids": []gen.M{l}}
						}
						kids = append(kids, l)
					}
					f = gen.M{"op": "and", "i": 0, "kids": kids}
				}
				if r.Intn(12) == 0 { // exactly-one groups over the same variables in different orders
					k = 5 + r.Intn(3)
					var kids []gen.M
					for j := 0; j < 2+r.Intn(2); j++ {
						var vs []gen.M
						for _, v := range r.Perm(k) {
							vs = append(vs, gen.M{"op": "v", "i": v + 1, "kids": []gen.M{}})
						}
						kids = append(kids, gen.M{"op": "uniq", "i": 0, "kids": vs})
					}
					kids = append(kids, gen.M{"op": "v", "i": 1 + r.Intn(k), "kids": []gen.M{}})
					f = gen.M{"op": "and", "i": 0, "kids": kids}
				}
				ev := []gen.M{gen.Op("solve")}
				if i%3 == 0 { // several calls on ONE formula value, also under a negation built around it
					ev = nil
					for j := 0; j < 2+r.Intn(2); j++ {
						ev = append(ev, gen.M{"op": "solve", "neg": r.Intn(2) == 0})
					}
				}
				res = append(res, gen.M{"drv": "bf", "k": k, "names": gen.Names(k), "hasF": true, "f": f, "ev": ev})
			}
			return res
		},
		Cover: func(t core.Case, cov map[string]int) bool {
			f, _ := t["f"].(map[string]any)
			for _, op := range []string{"not", "and", "or", "imp", "eq", "xor", "uniq", "T", "F"} {
				if hasOp(f, op) {
					cov["op."+op]++
				}
			}
			uniqSizes(f, cov)
			nt := false
			for _, e := range evs(t) {
				if s(e, "op") == "solve" {
					if b(e, "isNil") {
						cov["reply.nil"]++
					} else {
						cov["reply.model"]++
					}
					nt = len(sub(f, "kids")) > 0
				}
			}
			return nt
		},
		Rule:    "cases: formula trees of depth <=4 over <=9 names built through the public constructors (Var, True, False, Not, n-ary And/Or of arity 0..3, Implies, Eq, Xor, Unique groups of size 1..9 at every polarity, large groups conjoined with literals) solved by bf.Solve; non-trivial = the formula is not a single leaf",
		Require: []string{"op.not", "op.and", "op.or", "op.imp", "op.eq", "op.xor", "op.uniq", "uniq.size>=5", "uniq.size<5", "reply.nil", "reply.model"},
	})

	register(&core.Check{
		ID:          "C12",
		Designs:     bfDesigns("dimacs"),
		TraceModule: "BFTrace",
		Cases: func(env *core.Env) []core.Case {
			r := env.Rand
			var res []core.Case
			for i := 0; i < env.Pick(2500, 30000); i++ {
				k := 1 + r.Intn(6)
				maxU := 6
				if r.Intn(4) == 0 {
					k = 7 + r.Intn(2)
					maxU = k
				}
				f := gen.RandFormula(r, k, 1+r.Intn(3), 1, 1, maxU)
				if k >= 7 && r.Intn(2) == 0 {
					f = gen.M{"op": "and", "i": 0, "kids": []gen.M{gen.UniqAll(r, k), gen.RandFormula(r, k, 1, 1, 0, 0)}}
				}
				if r.Intn(5) == 0 { // literals stated at the top level that come back inside nested disjunctions
					// (absorption shapes: a translation that simplifies with known literals must keep its
					// variable numbering straight), followed by parts over other variables
					k = 4 + r.Intn(4)
					lit := func() gen.M {
						v := gen.M{"op": "v", "i": 1 + r.Intn(k), "kids": []gen.M{}}
						if r.Intn(3) == 0 {
							return gen.M{"op": "not", "i": 0, "kids": []gen.M{v}}
						}
						return v
					}
					var tops []gen.M
					for j := 0; j < 1+r.Intn(2); j++ {
						tops = append(tops, lit())
					}
					kids := append([]gen.M{}, tops...)
					for j := 0; j < 1+r.Intn(3); j++ {
						var ds []gen.M
						for x := 0; x < 1+r.Intn(3); x++ {
							switch r.Intn(3) {
							case 0:
								ds = append(ds, gen.M{"op": "and", "i": 0, "kids": []gen.M{lit(), lit()}})
							case 1:
								t := deepCopy(tops[r.Intn(len(tops))])
								if r.Intn(3) == 0 {
									t = gen.M{"op": "not", "i": 0, "kids": []gen.M{t}}
								}
								ds = append(ds, t)
							default:
								ds = append(ds, lit())
							}
						}
						kids = append(kids, gen.M{"op": "or", "i": 0, "kids": ds})
					}
					if r.Intn(2) == 0 {
						r.Shuffle(len(kids)-1, func(a, b int) { kids[a+1], kids[b+1] = kids[b+1], kids[a+1] })
					}
					f = gen.M{"op": "and", "i": 0, "kids": kids}
				}
				if r.Intn(8) == 0 {
					// several exactly-one groups over the SAME variables written in different orders (and sub-groups),
					// conjoined: whatever the translation shares between groups must not depend on the order
					k = 5 + r.Intn(3)
					var kids []gen.M
					for j := 0; j < 2+r.Intn(2); j++ {
						g := gen.UniqAll(r, k)
						if j == 0 || r.Intn(2) == 0 { // the full set, in a random order
							var vs []gen.M
							for _, v := range r.Perm(k) {
								vs = append(vs, gen.M{"op": "v", "i": v + 1, "kids": []gen.M{}})
							}
							g = gen.M{"op": "uniq", "i": 0, "kids": vs}
						}
						kids = append(kids, g)
					}
					if r.Intn(2) == 0 {
						kids = append(kids, gen.RandFormula(r, k, 1, 1, 0, 0))
					}
					f = gen.M{"op": "and", "i": 0, "kids": kids}
				}
				ev := []gen.M{gen.Op("dimacs")}
				if i%4 == 0 { // several calls on one formula value
					ev = []gen.M{{"op": "dimacs", "neg": r.Intn(2) == 0}, {"op": "dimacs", "neg": r.Intn(2) == 0}}
				}
				res = append(res, gen.M{"drv": "bf", "k": k, "names": gen.Names(k), "hasF": true, "f": f, "ev": ev})
			}
			return res
		},
		Cover: func(t core.Case, cov map[string]int) bool {
			f, _ := t["f"].(map[string]any)
			uniqSizes(f, cov)
			nt := false
			for _, e := range evs(t) {
				if s(e, "op") == "dimacs" {
					hv := n(e, "hdrVars")
					if hv > 13 {
						cov["export.too-large-for-enumeration"]++
					} else {
						cov["export.enumerated"]++
					}
					if hv > len(sub(e, "map")) {
						cov["export.with-auxiliary-variables"]++
					}
					nt = n(e, "hdrClauses") >= 2
				}
			}
			return nt
		},
		Rule:    "cases: formula trees of depth <=3 over <=6 names (all connectives; exactly-one groups of size 1..6 only at positive polarity) exported by bf.Dimacs; the export is tokenised (header, name comments, clauses) and, up to 13 variables, its models are enumerated by TLC and compared both ways with the formula's truth table; non-trivial = at least two clauses exported",
		Require: []string{"export.enumerated", "export.with-auxiliary-variables", "uniq.size>=5"},
	})

	register(&core.Check{
		ID:          "C17",
		Designs:     parseDesigns(),
		TraceModule: "BFTrace",
		Cases: func(env *core.Env) []core.Case {
			r := env.Rand
			var res []core.Case
			for i := 0; i < env.Pick(3000, 40000); i++ {
				k := 1 + r.Intn(4)
				names := gen.Names(k)
				if r.Intn(2) == 0 {
					names = gen.RandNames(r, k)
				}
				tree := gen.RandSyntaxTree(r, k, 1+r.Intn(8))
				toks := gen.Tokens(r, tree, names, 1, []float64{0, 0.1, 0.3}[r.Intn(3)])
				kind := "well-formed"
				if r.Intn(3) == 0 {
					toks = gen.Corrupt(r, toks)
					kind = "corrupted"
				}
				res = append(res, gen.M{"drv": "bf", "k": k, "names": names, "hasF": false, "f": gen.M{"op": "F", "i": 0, "kids": []gen.M{}}, "kind": kind,
					"ev": []gen.M{{"op": "parse", "tokens": toks, "seed": r.Intn(1 << 20), "layout": r.Intn(2)}}})
			}
			// sizes random texts never reach: long flat texts (a thousand clauses and more, as a program would
			// write them) and deep nests of redundant parentheses
			names := gen.Names(3)
			long := func(clauses int) []string {
				var toks []string
				for j := 0; j < clauses; j++ {
					if j > 0 {
						toks = append(toks, ";")
					}
					x, y := names[r.Intn(3)], names[r.Intn(3)]
					switch r.Intn(3) {
					case 0:
						toks = append(toks, "^", x, "|", y)
					case 1:
						toks = append(toks, x, "|", "^", y)
					default:
						toks = append(toks, "^", x, "->", "^", y)
					}
				}
				return toks
			}
			nest := func(depth int) []string {
				var toks []string
				for j := 0; j < depth; j++ {
					toks = append(toks, "(")
				}
				toks = append(toks, names[0], "&", "^", names[1])
				for j := 0; j < depth; j++ {
					toks = append(toks, ")")
				}
				return toks
			}
			sized := [][]string{long(700 + r.Intn(500)), nest(150 + r.Intn(150))}
			if !env.Quick() {
				sized = append(sized, long(1300+r.Intn(800)), long(300), nest(600), nest(1100))
			}
			for _, toks := range sized {
				res = append(res, gen.M{"drv": "bf", "k": 3, "names": names, "hasF": false, "f": gen.M{"op": "F", "i": 0, "kids": []gen.M{}}, "kind": "well-formed",
					"budgetMs": 30000, "ev": []gen.M{{"op": "parse", "tokens": toks, "seed": r.Intn(1 << 20), "layout": 0}}})
			}
			return res
		},
		Cover: func(t core.Case, cov map[string]int) bool {
			cov["kind."+s(t, "kind")]++
			nt := false
			for _, e := range evs(t) {
				if s(e, "op") != "parse" {
					continue
				}
				if b(e, "err") {
					cov["reply.error"]++
				} else {
					cov["reply.formula"]++
				}
				toks, _ := e["tokens"].([]any)
				for _, x := range toks {
					if tk, _ := x.(string); tk != "" {
						cov["tok."+tk]++
					}
				}
				nt = len(toks) >= 3
			}
			return nt
		},
		Rule:    "cases: syntax trees of size <=8 over <=4 identifiers (^, &, |, ->, =, ;, exactly-one groups) rendered as token strings with the parentheses the priorities require plus redundant ones, seeded spacing and line breaks; one third with one token dropped / duplicated / swapped / inserted; the reference grammar (BFParse.tla) decides what each text means; non-trivial = at least three tokens",
		Require: []string{"kind.well-formed", "kind.corrupted", "kind.enumerated", "reply.error", "reply.formula", "tok.;", "tok.=", "tok.->", "tok.{", "tok.("},
	})
}
