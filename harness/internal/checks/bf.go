package checks

import (
	"verifharness/internal/core"
	"verifharness/internal/gen"
)

func hasOp(f map[string]any, op string) bool {
	if s(f, "op") == op {
		return true
	}
	for _, k := range sub(f, "kids") {
		if hasOp(k, op) {
			return true
		}
	}
	return false
}

func uniqSizes(f map[string]any, cov map[string]int) {
	if s(f, "op") == "uniq" {
		k := len(sub(f, "kids"))
		if k >= 5 {
			cov["uniq.size>=5"]++
		} else {
			cov["uniq.size<5"]++
		}
	}
	for _, k := range sub(f, "kids") {
		uniqSizes(k, cov)
	}
}

func init() {
	register(&core.Check{
		ID:          "C11",
		TraceModule: "BFTrace",
		Cases: func(env *core.Env) []core.Case {
			r := env.Rand
			var res []core.Case
			for i := 0; i < env.Pick(3000, 40000); i++ {
				k := 1 + r.Intn(6)
				maxU := 6
				if r.Intn(4) == 0 { // larger exactly-one groups (the grid encoding changes shape with the size)
					k = 7 + r.Intn(3)
					maxU = k
				}
				f := gen.RandFormula(r, k, 1+r.Intn(4), 1, 2, maxU)
				if k >= 7 && r.Intn(2) == 0 { // a large group constrained by a few literals
					kids := []gen.M{gen.UniqAll(r, k)}
					for j := 0; j < 1+r.Intn(3); j++ {
						kids = append(kids, gen.RandFormula(r, k, r.Intn(2), 1, 0, 0))
					}
					f = gen.M{"op": "and", "i": 0, "kids": kids}
				}
				res = append(res, gen.M{"drv": "bf", "k": k, "names": gen.Names(k), "hasF": true, "f": f, "ev": []gen.M{gen.Op("solve")}})
			}
			return res
		},
		Cover: func(t core.Case, cov map[string]int) bool {
			f, _ := t["f"].(map[string]any)
			for _, op := range []string{"not", "and", "or", "imp", "eq", "xor", "uniq", "T", "F"} {
				if hasOp(f, op) {
					cov["op."+op]++
				}
			}
			uniqSizes(f, cov)
			nt := false
			for _, e := range evs(t) {
				if s(e, "op") == "solve" {
					if b(e, "isNil") {
						cov["reply.nil"]++
					} else {
						cov["reply.model"]++
					}
					nt = len(sub(f, "kids")) > 0
				}
			}
			return nt
		},
		Rule:    "cases: formula trees of depth <=4 over <=9 names built through the public constructors (Var, True, False, Not, n-ary And/Or of arity 0..3, Implies, Eq, Xor, Unique groups of size 1..9 at every polarity, large groups conjoined with literals) solved by bf.Solve; non-trivial = the formula is not a single leaf",
		Require: []string{"op.not", "op.and", "op.or", "op.imp", "op.eq", "op.xor", "op.uniq", "uniq.size>=5", "uniq.size<5", "reply.nil", "reply.model"},
	})

	register(&core.Check{
		ID:          "C12",
		TraceModule: "BFTrace",
		Cases: func(env *core.Env) []core.Case {
			r := env.Rand
			var res []core.Case
			for i := 0; i < env.Pick(2500, 30000); i++ {
				k := 1 + r.Intn(6)
				maxU := 6
				if r.Intn(6) == 0 {
					k = 7 + r.Intn(2)
					maxU = k
				}
				f := gen.RandFormula(r, k, 1+r.Intn(3), 1, 1, maxU)
				if k >= 7 && r.Intn(2) == 0 {
					f = gen.M{"op": "and", "i": 0, "kids": []gen.M{gen.UniqAll(r, k), gen.RandFormula(r, k, 1, 1, 0, 0)}}
				}
				res = append(res, gen.M{"drv": "bf", "k": k, "names": gen.Names(k), "hasF": true, "f": f, "ev": []gen.M{gen.Op("dimacs")}})
			}
			return res
		},
		Cover: func(t core.Case, cov map[string]int) bool {
			f, _ := t["f"].(map[string]any)
			uniqSizes(f, cov)
			nt := false
			for _, e := range evs(t) {
				if s(e, "op") == "dimacs" {
					hv := n(e, "hdrVars")
					if hv > 13 {
						cov["export.too-large-for-enumeration"]++
					} else {
						cov["export.enumerated"]++
					}
					if hv > len(sub(e, "map")) {
						cov["export.with-auxiliary-variables"]++
					}
					nt = n(e, "hdrClauses") >= 2
				}
			}
			return nt
		},
		Rule:    "cases: formula trees of depth <=3 over <=6 names (all connectives; exactly-one groups of size 1..6 only at positive polarity) exported by bf.Dimacs; the export is tokenised (header, name comments, clauses) and, up to 13 variables, its models are enumerated by TLC and compared both ways with the formula's truth table; non-trivial = at least two clauses exported",
		Require: []string{"export.enumerated", "export.with-auxiliary-variables", "uniq.size>=5"},
	})

	register(&core.Check{
		ID:          "C17",
		TraceModule: "BFTrace",
		Cases: func(env *core.Env) []core.Case {
			r := env.Rand
			var res []core.Case
			for i := 0; i < env.Pick(3000, 40000); i++ {
				k := 1 + r.Intn(4)
				names := gen.Names(k)
				tree := gen.RandSyntaxTree(r, k, 1+r.Intn(8))
				toks := gen.Tokens(r, tree, names, 1, []float64{0, 0.1, 0.3}[r.Intn(3)])
				kind := "well-formed"
				if r.Intn(3) == 0 {
					toks = gen.Corrupt(r, toks)
					kind = "corrupted"
				}
				res = append(res, gen.M{"drv": "bf", "k": k, "names": names, "hasF": false, "f": gen.M{"op": "F", "i": 0, "kids": []gen.M{}}, "kind": kind,
					"ev": []gen.M{{"op": "parse", "tokens": toks, "seed": r.Intn(1 << 20), "layout": r.Intn(2)}}})
			}
			return res
		},
		Cover: func(t core.Case, cov map[string]int) bool {
			cov["kind."+s(t, "kind")]++
			nt := false
			for _, e := range evs(t) {
				if s(e, "op") != "parse" {
					continue
				}
				if b(e, "err") {
					cov["reply.error"]++
				} else {
					cov["reply.formula"]++
				}
				toks, _ := e["tokens"].([]any)
				for _, x := range toks {
					if tk, _ := x.(string); tk != "" {
						cov["tok."+tk]++
					}
				}
				nt = len(toks) >= 3
			}
			return nt
		},
		Rule:    "cases: syntax trees of size <=8 over <=4 identifiers (^, &, |, ->, =, ;, exactly-one groups) rendered as token strings with the parentheses the priorities require plus redundant ones, seeded spacing and line breaks; one third with one token dropped / duplicated / swapped / inserted; the reference grammar (BFParse.tla) decides what each text means; non-trivial = at least three tokens",
		Require: []string{"kind.well-formed", "kind.corrupted", "reply.error", "reply.formula", "tok.;", "tok.=", "tok.->", "tok.{", "tok.("},
	})
}
