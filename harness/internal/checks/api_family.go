package checks

import (
	"math/rand"
	"time"

	"verifharness/internal/core"
	"verifharness/internal/gen"
)

// randConstraintProblem: a conjunction of constructor calls for the card or pb front end.
func randConstraintProblem(r *rand.Rand, maxN, maxCons, W int) (front string, n int, cons []gen.M) {
	n = 1 + r.Intn(maxN)
	front = "pb"
	if r.Intn(2) == 0 {
		front = "card"
	}
	m := 1 + r.Intn(maxCons)
	for i := 0; i < m; i++ {
		if front == "card" {
			cons = append(cons, gen.RandCardCtor(r, n))
		} else {
			cons = append(cons, gen.RandPBCtor(r, n, W))
		}
	}
	return
}

// coveringProblem: mostly positive clauses / at-least-k constraints over variables that all carry a cost.
func coveringProblem(r *rand.Rand) (front string, n int, strict bool, cons []gen.M, obj gen.M) {
	return coveringProblemN(r, 3+r.Intn(5))
}

// starsProblem: weighted vertex cover of m disjoint stars. The greedy first model (heaviest cost
// variables false first) pays for all the leaves; every improvement switches one star to its
// centre: a chain of up to m improving models.
func starsProblem(r *rand.Rand) (front string, n int, strict bool, cons []gen.M, obj gen.M) {
	m := 2 + r.Intn(2)
	var lits, w []int
	v := 0
	for j := 0; j < m; j++ {
		wc := 2 + r.Intn(2)
		k := wc + 1 + r.Intn(2)
		if m == 3 && k > 3 {
			k = 3
			wc = 2
		}
		v++
		c := v
		lits, w = append(lits, c), append(w, wc)
		for i := 0; i < k; i++ {
			v++
			lits, w = append(lits, v), append(w, 1)
			cons = append(cons, gen.Clause(c, v))
		}
	}
	n = v
	perm := r.Perm(len(cons))
	sh := make([]gen.M, len(cons))
	for i, p := range perm {
		sh[i] = cons[p]
	}
	return "slicenb", n, true, sh, gen.M{"lits": lits, "w": w}
}

func coveringProblemN(r *rand.Rand, nn0 int) (front string, n int, strict bool, cons []gen.M, obj gen.M) {
	n = nn0
	front = []string{"slicenb", "pb", "card"}[r.Intn(3)]
	m := 2 + r.Intn(n+1)
	for i := 0; i < m; i++ {
		k := 2 + r.Intn(2)
		if k > n {
			k = n
		}
		lits := gen.DistinctLits(r, n, k)
		for j := range lits {
			if lits[j] < 0 && r.Intn(5) > 0 {
				lits[j] = -lits[j]
			}
		}
		if front != "slicenb" && r.Intn(3) == 0 && k >= 3 {
			cons = append(cons, gen.Ctor("atleast", lits, nil, 2))
		} else {
			cons = append(cons, gen.Clause(lits...))
		}
	}
	lits := make([]int, n)
	w := make([]int, n)
	for i := range lits {
		lits[i] = i + 1
		if r.Intn(8) == 0 {
			lits[i] = -lits[i]
		}
		w[i] = 1 + r.Intn(3)
	}
	spread := r.Intn(3) == 0 // weights that rarely tie: the order of the terms of a bound constraint matters
	if spread {
		for i := range w {
			w[i] = 1 + r.Intn(6)
		}
	}
	if r.Intn(3) == 0 || spread { // cost literals fixed at top level by unit constraints
		for k := 0; k < 1+r.Intn(2); k++ {
			v := 1 + r.Intn(n)
			l := -lits[v-1]
			if r.Intn(4) == 0 {
				l = -l
			}
			cons = append(cons, gen.Clause(l))
		}
	}
	nn := n
	if front != "slicenb" {
		nn = maxVarOfCons(cons)
		lits, w = lits[:nn], w[:nn]
	}
	return front, nn, front == "slicenb", cons, gen.M{"lits": lits, "w": w}
}

// hardPB: 2..5 linear constraints over 4..8 variables with mixed-sign coefficients and right-hand
// sides in the middle of the reachable range: the search meets real conflicts whose reasons are
// cardinality / PB constraints (literals of a reason may be true or unbound).
func hardPB(r *rand.Rand) (string, []gen.M) {
	n := 5 + r.Intn(4)
	var cons []gen.M
	front := "pb"
	if r.Intn(4) == 0 {
		front = "card"
	}
	for j := 0; j < 3+r.Intn(4); j++ {
		k := 2 + r.Intn(min(n, 5)-1)
		lits := gen.DistinctLits(r, n, k)
		if front == "card" {
			switch r.Intn(3) {
			case 0:
				cons = append(cons, gen.Ctor("atmost1", lits, nil, 1))
			case 1:
				cons = append(cons, gen.Ctor("exactly1", lits, nil, 1))
			default:
				cons = append(cons, gen.Ctor("atleast", lits, nil, 1+r.Intn(k)))
			}
			continue
		}
		w := make([]int, k)
		lo, hi := 0, 0
		for i := range w {
			w[i] = 1 + r.Intn(3)
			if r.Intn(3) == 0 {
				w[i] = -w[i]
			}
			if w[i] > 0 {
				hi += w[i]
			} else {
				lo += w[i]
			}
		}
		rhs := lo + 1 + r.Intn(hi-lo)
		kind := []string{"eq", "gteq", "lteq", "eq"}[r.Intn(4)]
		cons = append(cons, gen.Ctor(kind, lits, w, rhs))
	}
	return front, cons
}

// normalizeCases: every constructor call enumerated by Normalize.tla goes through the real
// constructor and front end, alone or mixed with a unit constraint over one of its variables.
func normalizeCases(env *core.Env, emitted []core.Case) []core.Case {
	var res []core.Case
	for i, e := range emitted {
		kind, _ := e["k"].(string)
		c := gen.Ctor(kind, toInts(e["lits"]), toInts(e["w"]), int(e["rhs"].(float64)))
		front := "pb"
		switch kind {
		case "atmost1", "exactly1":
			front = "card"
		case "clause", "atleast":
			if i%2 == 0 {
				front = "card"
			}
		}
		cons := []gen.M{c}
		if i%2 == 1 { // a unit constraint over one of the variables: parse-time simplification
			l := 1 + env.Rand.Intn(len(c["lits"].([]int)))
			if env.Rand.Intn(2) == 0 {
				l = -l
			}
			if env.Rand.Intn(2) == 0 {
				cons = []gen.M{gen.Clause(l), c}
			} else {
				cons = []gen.M{c, gen.Clause(l)}
			}
		}
		res = append(res, gen.APICase(front, maxVarOfCons(cons), false, cons, false, nil, gen.Cfg(false, 0, 0, false, false, true), []gen.M{gen.Op("solve")}))
	}
	if !env.Quick() && len(res) > 40000 {
		env.Rand.Shuffle(len(res), func(i, j int) { res[i], res[j] = res[j], res[i] })
		res = res[:40000]
	}
	return res
}

func distinctVars(ls []int) bool {
	seen := map[int]bool{}
	for _, l := range ls {
		if l < 0 {
			l = -l
		}
		if seen[l] {
			return false
		}
		seen[l] = true
	}
	return true
}

func maxVarOfCons(cons []gen.M) int {
	m := 0
	for _, c := range cons {
		for _, l := range c["lits"].([]int) {
			if l < 0 {
				l = -l
			}
			if l > m {
				m = l
			}
		}
	}
	return m
}

// randMixedProblem returns a problem for one of the fronts with its declared n and strictness.
func randMixedProblem(r *rand.Rand, maxN int) (front string, n int, strict bool, cons []gen.M) {
	switch r.Intn(3) {
	case 0:
		nv := 1 + r.Intn(maxN)
		clauses := gen.RandCNF(r, nv, r.Intn(3*nv+1), 3, r.Intn(4) == 0)
		return "slicenb", nv, true, gen.ClauseCtors(clauses)
	default:
		front, n, cons = randConstraintProblem(r, maxN, 5, 3)
		return front, maxVarOfCons(cons), false, cons
	}
}

// histDesigns: every call history of the SolverAPI machine (spec/SolverAPI.tla) up to its depth is
// emitted by TLC; C09 replays the ones without Assume, C10 the ones without AppendClause.
func histDesigns(keep string) []core.Design {
	toCases := func(env *core.Env, emitted []core.Case) []core.Case {
		var res []core.Case
		for _, e := range emitted {
			var ev []gen.M
			ok, interesting := true, false
			for _, o := range e["hist"].([]any) {
				om := o.(map[string]any)
				switch om["op"] {
				case "solve":
					ev = append(ev, gen.Op("solve"))
				case "append":
					if keep != "append" {
						ok = false
					}
					interesting = true
					var cl []int
					for _, l := range om["c"].([]any) {
						cl = append(cl, int(l.(float64)))
					}
					ev = append(ev, gen.M{"op": "append", "c": gen.Clause(cl...)})
				case "assume":
					if keep != "assume" {
						ok = false
					}
					interesting = true
					ls := []int{}
					for _, l := range om["ls"].([]any) {
						ls = append(ls, int(l.(float64)))
					}
					ev = append(ev, gen.M{"op": "assume", "ls": ls})
				}
			}
			if !ok || !interesting {
				continue
			}
			ev = append(ev, gen.Op("solve"))
			var clauses [][]int
			for _, c := range e["base"].([]any) {
				var cl []int
				for _, l := range c.([]any) {
					cl = append(cl, int(l.(float64)))
				}
				clauses = append(clauses, cl)
			}
			res = append(res, gen.APICase("slicenb", 2, true, gen.ClauseCtors(clauses), false, nil, gen.Cfg(false, 0, 0, false, false, true), ev))
		}
		if env.Quick() && len(res) > 6000 { // quick tier: a seeded sample of the enumerated histories
			env.Rand.Shuffle(len(res), func(i, j int) { res[i], res[j] = res[j], res[i] })
			res = res[:6000]
		}
		return res
	}
	return []core.Design{
		{Name: "hist", Module: "SolverAPI", Cfg: "SolverAPI_quick.cfg", ToCases: toCases, Timeout: 20 * time.Minute, Workers: 8},
	}
}

// appendPBDesigns: AppendPB.tla (a pseudo-boolean constraint added to a live solver under top-level
// facts) in its intended form, the "last term" variant that must violate OutcomeCorrect, and the
// replay of every enumerated (facts, constraint) pair on the real solver: the facts are unit clauses
// of the problem (even cases) or are appended one by one after a first Solve (odd cases), then the
// constraint is appended and the models are enumerated by Solve / AppendClause(blocking clause) rounds.
func appendPBDesigns(replay bool) []core.Design {
	toCases := func(env *core.Env, emitted []core.Case) []core.Case {
		var res []core.Case
		for i, e := range emitted {
			c, _ := e["c"].(map[string]any)
			ctor := gen.Ctor("gteq", toInts(c["lits"]), toInts(c["w"]), int(c["d"].(float64)))
			if allOnes(toInts(c["w"])) && i%4 < 2 { // a cardinality constraint: also as NewCardClause
				ctor = gen.Ctor("atleast", toInts(c["lits"]), nil, int(c["d"].(float64)))
			}
			facts := toInts(e["facts"])
			nv := int(e["n"].(float64))
			var base [][]int
			ev := []gen.M{gen.Op("solve")}
			for _, f := range facts {
				if i%2 == 0 {
					base = append(base, []int{f})
				} else {
					ev = append(ev, gen.M{"op": "append", "c": gen.Clause(f)})
				}
			}
			ev = append(ev, gen.M{"op": "append", "c": ctor})
			// the models are enumerated inside the alphabet of the property: Solve, then AppendClause of the
			// clause excluding the model returned, until Unsat (at most 2^n + 1 rounds)
			for k := 0; k <= 1<<uint(nv); k++ {
				ev = append(ev, gen.Op("solve"), gen.Op("blocklast"))
			}
			res = append(res, gen.APICase("slicenb", nv, true, gen.ClauseCtors(base), false, nil, gen.Cfg(false, 0, 0, false, false, true), ev))
		}
		if max := env.Pick(5000, 60000); len(res) > max { // a seeded sample of the enumerated pairs
			env.Rand.Shuffle(len(res), func(i, j int) { res[i], res[j] = res[j], res[i] })
			res = res[:max]
		}
		return res
	}
	if !replay {
		toCases = nil
	}
	return []core.Design{
		{Name: "append-pb", Module: "AppendPB", Cfg: "AppendPB_quick.cfg", Tier: "quick", ToCases: toCases, Timeout: 20 * time.Minute, Workers: 8, XmxMB: 6000},
		{Name: "append-pb", Module: "AppendPB", Cfg: "AppendPB_thorough.cfg", Tier: "thorough", ToCases: toCases, Timeout: 30 * time.Minute, Workers: 16, XmxMB: 12000},
		{Name: "append-pb-last-term", Module: "AppendPB", Cfg: "AppendPB_last.cfg", Timeout: 20 * time.Minute, Workers: 8, XmxMB: 6000, ExpectViolation: "OutcomeCorrect"},
	}
}

// parsePBCases: the (facts, PB constraint) pairs of AppendPB.tla given to the constraint front end at
// once (unit constraints before or after the constraint): parse-time simplification of a PB constraint
// under facts must leave exactly the models of the conjunction (counted, then solved).
// pbcdclCases: the inputs enumerated by PBCDCL.tla (sets of at most K constraints over 3 variables) are
// given to the real solver through the PB front end.
func pbcdclCases(env *core.Env, emitted []core.Case) []core.Case {
	var res []core.Case
	for _, e := range emitted {
		var cons []gen.M
		fl, _ := e["F"].([]any)
		for _, k := range fl {
			km, _ := k.(map[string]any)
			cons = append(cons, gen.Ctor("gteq", toInts(km["lits"]), toInts(km["w"]), n(km, "d")))
		}
		if len(cons) == 0 {
			continue
		}
		if env.Rand.Intn(2) == 0 {
			env.Rand.Shuffle(len(cons), func(i, j int) { cons[i], cons[j] = cons[j], cons[i] })
		}
		c := gen.APICase("pb", n(e, "n"), false, cons, false, nil, gen.Cfg(false, 0, 0, false, false, true), []gen.M{gen.Op("solve")})
		res = append(res, c)
	}
	limit := env.Pick(1500, 30000)
	if len(res) > limit {
		env.Rand.Shuffle(len(res), func(i, j int) { res[i], res[j] = res[j], res[i] })
		res = res[:limit]
	}
	return res
}

func parsePBCases(env *core.Env, emitted []core.Case) []core.Case {
	var res []core.Case
	for i, e := range emitted {
		c, _ := e["c"].(map[string]any)
		ctor := gen.Ctor("gteq", toInts(c["lits"]), toInts(c["w"]), int(c["d"].(float64)))
		var units []gen.M
		for _, f := range toInts(e["facts"]) {
			units = append(units, gen.Clause(f))
		}
		front := "pb"
		if allOnes(toInts(c["w"])) && i%4 < 2 { // a cardinality constraint: also through the cardinality front end
			front = "card"
			ctor = gen.Ctor("atleast", toInts(c["lits"]), nil, int(c["d"].(float64)))
		}
		cons := append(append([]gen.M{}, units...), ctor)
		if i%2 == 1 {
			cons = append([]gen.M{ctor}, units...)
		}
		ev := []gen.M{gen.Op("count")}
		if i%3 == 0 {
			ev = []gen.M{gen.Op("solve")}
		}
		res = append(res, gen.APICase(front, int(e["n"].(float64)), false, cons, false, nil, gen.Cfg(false, 0, 0, false, false, true), ev))
	}
	if max := env.Pick(4000, 60000); len(res) > max {
		env.Rand.Shuffle(len(res), func(i, j int) { res[i], res[j] = res[j], res[i] })
		res = res[:max]
	}
	return res
}

// parsePBSeqCases: the constraint sequences of ParsePB.tla through the constraint constructors
// (ParsePBConstrs), through the cardinality front end when every weight is 1, and as an OPB text
// (ParseOPB): what parse-time simplification leaves must have exactly the models of the sequence.
func parsePBSeqCases(env *core.Env, emitted []core.Case) []core.Case {
	var res []core.Case
	for i, e := range emitted {
		var cons []gen.M
		card := true
		l, _ := e["cons"].([]any)
		for _, x := range l {
			c, _ := x.(map[string]any)
			if !allOnes(toInts(c["w"])) {
				card = false
			}
			cons = append(cons, gen.Ctor("gteq", toInts(c["lits"]), toInts(c["w"]), int(c["d"].(float64))))
		}
		front := []string{"pb", "opb", "pb"}[i%3]
		if card && i%4 == 1 {
			front = "card"
			for _, k := range cons {
				k["k"] = "atleast" // all weights are 1: at least rhs of the literals
			}
		}
		ev := []gen.M{gen.Op("count")}
		if i%5 == 0 {
			ev = []gen.M{gen.Op("solve")}
		}
		res = append(res, gen.APICase(front, int(e["n"].(float64)), false, cons, false, nil, gen.Cfg(false, 0, 0, false, false, true), ev))
	}
	if max := env.Pick(5000, 90000); len(res) > max {
		env.Rand.Shuffle(len(res), func(i, j int) { res[i], res[j] = res[j], res[i] })
		res = res[:max]
	}
	return res
}

// parseCardSeqCases: the constraint sequences of ParseCard.tla through the cardinality front end
// (ParseCardConstrs) and, for a third of them, through the PB front end with unit weights.
func parseCardSeqCases(env *core.Env, emitted []core.Case) []core.Case {
	if max := env.Pick(5000, 90000); len(emitted) > max { // a seeded sample of the enumerated sequences
		env.Rand.Shuffle(len(emitted), func(i, j int) { emitted[i], emitted[j] = emitted[j], emitted[i] })
		emitted = emitted[:max]
	}
	var res []core.Case
	for i, e := range emitted {
		var cons []gen.M
		l, _ := e["cons"].([]any)
		for _, x := range l {
			c, _ := x.(map[string]any)
			cons = append(cons, gen.Ctor("atleast", toInts(c["lits"]), nil, int(c["d"].(float64))))
		}
		front := "card"
		if i%3 == 2 {
			front = "pb"
		}
		ev := []gen.M{gen.Op("count")}
		if i%5 == 0 {
			ev = []gen.M{gen.Op("solve")}
		}
		res = append(res, gen.APICase(front, int(e["n"].(float64)), false, cons, false, nil, gen.Cfg(false, 0, 0, false, false, true), ev))
	}
	return res
}

func allOnes(w []int) bool {
	for _, x := range w {
		if x != 1 {
			return false
		}
	}
	return true
}

func init() {
	// C02 — cardinality and pseudo-boolean constraints
	register(&core.Check{
		ID:      "C02",
		Amplify: amplifyAPI,
		Designs: []core.Design{
			{Name: "normalize", Module: "Normalize", Cfg: "Normalize_quick.cfg", Tier: "quick", Workers: 4, XmxMB: 4000, Timeout: 10 * time.Minute, ToCases: normalizeCases},
			{Name: "normalize", Module: "Normalize", Cfg: "Normalize_thorough.cfg", Tier: "thorough", Workers: 16, XmxMB: 8000, Timeout: 30 * time.Minute, ToCases: normalizeCases},
			{Name: "pbprop", Module: "PBProp", Cfg: "PBProp.cfg", Workers: 6, XmxMB: 4000, Timeout: 10 * time.Minute},
			{Name: "pbprop-symbolic-weights", Module: "PBPropApa", Cfg: "PBPropApa.cfg", Engine: "apalache", Inv: "AllInv", Depth: 6, Tier: "thorough", XmxMB: 8000, Timeout: 20 * time.Minute},
			{Name: "parse-card", Module: "ParseCard", Cfg: "ParseCard_deep.cfg", Tier: "thorough", Workers: 8, XmxMB: 10000, Timeout: 20 * time.Minute, ToCases: parseCardSeqCases},
			{Name: "parse-card-wide", Module: "ParseCard", Cfg: "ParseCard_quick.cfg", Workers: 6, XmxMB: 8000, Timeout: 20 * time.Minute, ToCases: parseCardSeqCases},
			{Name: "parse-card-single-pass", Module: "ParseCard", Cfg: "ParseCard_once.cfg", Workers: 6, XmxMB: 8000, Timeout: 20 * time.Minute, ExpectViolation: "Fixpoint"},
			{Name: "parse-card-recount", Module: "ParseCard", Cfg: "ParseCard_recount.cfg", Workers: 4, XmxMB: 6000, Timeout: 20 * time.Minute, ExpectViolation: "ModelsPreserved"},
			{Name: "parse-pb", Module: "ParsePB", Cfg: "ParsePB_quick.cfg", Workers: 8, XmxMB: 8000, Timeout: 20 * time.Minute, ToCases: parsePBSeqCases},
			{Name: "parse-pb-single-pass", Module: "ParsePB", Cfg: "ParsePB_once.cfg", Workers: 8, XmxMB: 8000, Timeout: 20 * time.Minute, ExpectViolation: "Fixpoint"},
			{Name: "pb-under-facts", Module: "AppendPB", Cfg: "AppendPB_quick.cfg", Tier: "quick", Workers: 8, XmxMB: 6000, Timeout: 20 * time.Minute, ToCases: parsePBCases},
			{Name: "pb-under-facts", Module: "AppendPB", Cfg: "AppendPB_thorough.cfg", Tier: "thorough", Workers: 16, XmxMB: 12000, Timeout: 30 * time.Minute, ToCases: parsePBCases},
			// the search itself over clauses, cardinality and PB constraints (slack rule, clausal analysis over
			// the literals false BEFORE a propagation, backjump); its inputs are replayed and the recorded
			// searches of this check are matched against its actions (Mech)
			{Name: "search-pb", Module: "PBCDCL", Cfg: "PBCDCL_quick.cfg", Tier: "quick", Workers: 8, XmxMB: 8000, Timeout: 20 * time.Minute, ToCases: pbcdclCases},
			{Name: "search-pb", Module: "PBCDCL", Cfg: "PBCDCL_thorough.cfg", Tier: "thorough", Workers: 16, XmxMB: 24000, Timeout: 60 * time.Minute, ToCases: pbcdclCases},
		},
		TraceModule: "APITrace",
		Mech:        &core.Mech{Module: "SearchTrace", Project: mechAPI, Quick: 400, Thorough: 6000},
		Cases: func(env *core.Env) []core.Case {
			r := env.Rand
			var res []core.Case
			for i := 0; i < env.Pick(3000, 36000); i++ {
				front, _, cons := randConstraintProblem(r, 6, 5, 4)
				if i%2 == 0 { // conflict-heavy: several equalities / tight inequalities with mixed signs
					front, cons = hardPB(r)
				}
				n := maxVarOfCons(cons)
				cfg := gen.Cfg(false, 0, 0, false, false, true)
				res = append(res, gen.APICase(front, n, false, cons, false, nil, cfg, []gen.M{gen.Op("solve")}))
			}
			res = append(res, scanCandidates(env, "pb", env.Pick(40000, 600000), false, scanPB)...)
			return res
		},
		Cover: func(t core.Case, cov map[string]int) bool {
			dec, prop, _ := coverAPI(t, cov)
			for _, c := range sub(t, "cons") {
				cov["ctor."+s(c, "k")]++
			}
			return dec+prop > 0
		},
		Rule:    "cases: conjunctions of 1..5 constructor calls (AtLeast1, AtMost1, Exactly1, CardConstr; PropClause, AtLeast, AtMost, GtEq, LtEq, Eq) over n<=6 variables, coefficients in [-4,4], right-hand sides from below the minimum to above the maximum of the left-hand side, unit constraints mixed in (parse-time simplification), through ParseCardConstrs and ParsePBConstrs; distinct = hash of the input; non-trivial = at least one decision or propagation in the search",
		Require: []string{"reply.solve.SAT", "reply.solve.UNSAT", "front.card", "front.pb", "ctor.eq", "ctor.lteq", "ctor.atmost1", "ctor.exactly1"},
	})

	// C03 — optimisation
	register(&core.Check{
		ID:      "C03",
		Amplify: amplifyAPI,
		Designs: []core.Design{
			{Name: "optimize", Module: "Optimize", Cfg: "Optimize.cfg", Workers: 8, XmxMB: 6000, Timeout: 10 * time.Minute,
				// every (model set over 3 variables, weights 0..2) pair: the CNF with exactly those models, optimised
				// through Optimal (with and without a result channel) and Minimize; zero weights stay in the cost function
				ToCases: func(env *core.Env, emitted []core.Case) []core.Case {
					var res []core.Case
					for i, e := range emitted {
						nv := int(e["n"].(float64))
						w := toInts(e["w"])
						lits := make([]int, nv)
						for v := range lits {
							lits[v] = v + 1
						}
						ev := []gen.M{gen.OpChan("optimal", i%2 == 0)}
						if i%3 == 0 {
							ev = []gen.M{gen.Op("minimize")}
						}
						res = append(res, gen.APICase("slicenb", nv, true, gen.ClauseCtors(clauseList(e["clauses"])), true,
							gen.M{"lits": lits, "w": w}, gen.Cfg(false, 0, 0, false, false, true), ev))
					}
					if env.Quick() && len(res) > 2500 {
						env.Rand.Shuffle(len(res), func(i, j int) { res[i], res[j] = res[j], res[i] })
						res = res[:2500]
					}
					return res
				}},
			{Name: "optimize-negative-weights", Module: "Optimize", Cfg: "Optimize_neg.cfg", Workers: 2, XmxMB: 2000, Timeout: 5 * time.Minute, ExpectViolation: "Optimal"},
			{Name: "pbprop-zero-weight", Module: "PBProp", Cfg: "PBProp_zero.cfg", Workers: 2, XmxMB: 2000, Timeout: 5 * time.Minute, ExpectViolation: "Sound"},
		},
		TraceModule: "APITrace",
		Budget:      0,
		Cases: func(env *core.Env) []core.Case {
			r := env.Rand
			var res []core.Case
			for i := 0; i < env.Pick(1500, 20000); i++ {
				front, n, strict, cons := randMixedProblem(r, 6)
				if n == 0 {
					continue
				}
				hasObj := r.Intn(8) != 0
				obj := gen.NoObj()
				if hasObj {
					obj = gen.RandObj(r, n, 0, 3)
				}
				if r.Intn(2) == 0 { // covering problems: the first model found is rarely optimal
					front, n, strict, cons, obj = coveringProblem(r)
					hasObj = true
				} else if r.Intn(8) == 0 { // chains of improving models
					front, n, strict, cons, obj = starsProblem(r)
					hasObj = true
				}
				if r.Intn(6) == 0 { // OPB text: the only route by which negative cost coefficients can be given
					front, strict = "opb", false
					n = 1 + r.Intn(5)
					cons = nil
					for j := 0; j < r.Intn(4); j++ {
						cons = append(cons, opbCons(r, n, 3))
					}
					hasObj, obj = true, gen.RandObj(r, n, -3, 3)
				}
				cfg := gen.Cfg(false, 0, 0, false, false, true)
				var ev []gen.M
				switch r.Intn(3) {
				case 0:
					ev = []gen.M{gen.OpChan("optimal", false)}
				case 1:
					ev = []gen.M{gen.OpChan("optimal", true)}
				default:
					ev = []gen.M{gen.Op("minimize")}
				}
				c := gen.APICase(front, n, strict, cons, hasObj, obj, cfg, ev)
				if hasObj && r.Intn(6) == 0 { // documented: nil weights = all ones
					w := obj["w"].([]int)
					for j := range w {
						w[j] = 1
					}
					c["objNilW"] = true
				}
				res = append(res, c)
			}
			res = append(res, scanCandidates(env, "opt", env.Pick(50000, 800000), false, scanOpt)...)
			return res
		},
		Cover: func(t core.Case, cov map[string]int) bool {
			coverAPI(t, cov)
			nt := false
			for _, e := range evs(t) {
				if s(e, "op") == "optimal" && len(sub(e, "stream")) >= 2 {
					cov["stream.improvements"]++
					nt = true
				}
				for _, w := range sub(e, "wb") {
					if s(w, "k") == "append" {
						nt = true
					}
				}
			}
			if b(t, "objNilW") {
				cov["obj.nilweights"]++
			}
			if !b(t, "hasObj") {
				cov["obj.none"]++
			}
			if o, ok := t["obj"].(map[string]any); ok {
				for _, w := range o["w"].([]any) {
					if f, _ := w.(float64); f < 0 {
						cov["obj.negative-coefficient"]++
						break
					}
				}
			}
			return nt
		},
		Rule:    "cases: (constraint set, cost function) pairs, n<=6, clauses / cardinality / PB constraints, cost literals of either polarity with weights 0..3 (nil weights = all ones, no cost function), through Optimal(nil), Optimal(chan) and Minimize; non-trivial = the linear search strengthened the bound at least once",
		Require: []string{"op.optimal", "op.minimize", "obj.nilweights", "obj.none", "stream.improvements", "reply.optimal.UNSAT", "front.opb", "obj.negative-coefficient"},
	})

	// C05 — counting and enumeration
	register(&core.Check{
		ID:      "C05",
		Amplify: amplifyAPI,
		Designs: []core.Design{
			{Name: "twowatch-highest", Module: "TwoWatch", Cfg: "TwoWatch_intended.cfg", Tier: "quick", Workers: 4, XmxMB: 2000, Timeout: 5 * time.Minute},
			{Name: "twowatch-highest", Module: "TwoWatch", Cfg: "TwoWatch_intended4.cfg", Tier: "thorough", Workers: 8, XmxMB: 4000, Timeout: 10 * time.Minute},
			{Name: "twowatch-lowest", Module: "TwoWatch", Cfg: "TwoWatch_ascoded.cfg", Workers: 1, XmxMB: 2000, Timeout: 5 * time.Minute, ExpectViolation: "Complete"},
			{Name: "enumerate", Module: "Enumerate", Cfg: "Enumerate.cfg", Workers: 8, XmxMB: 12000, Timeout: 20 * time.Minute},
		},
		TraceModule: "APITrace",
		Cases: func(env *core.Env) []core.Case {
			r := env.Rand
			var res []core.Case
			for i := 0; i < env.Pick(3000, 40000); i++ {
				front, n, strict, cons := randMixedProblem(r, 7)
				if r.Intn(2) == 0 { // sparse CNF: many models, several decisions per model
					n = 4 + r.Intn(5)
					front, strict = "slicenb", true
					cons = gen.ClauseCtors(gen.RandCNF(r, n, 2+r.Intn(n), 3, r.Intn(4) == 0))
				}
				if r.Intn(10) == 0 { // no constraint at all / unused variables
					front, strict, cons = "slicenb", true, nil
					n = r.Intn(5)
				} else if front == "slicenb" && r.Intn(3) == 0 {
					n += r.Intn(3) // declared but unused variables
				}
				cfg := gen.Cfg(false, 0, 0, false, false, i%3 == 0) // white-box events for a third of the cases (long traces)
				var ev []gen.M
				switch r.Intn(3) {
				case 0:
					ev = []gen.M{gen.Op("count")}
				case 1:
					ev = []gen.M{gen.OpChan("enum", true)}
				default:
					ev = []gen.M{gen.OpChan("enum", false)}
				}
				res = append(res, gen.APICase(front, n, strict, cons, false, nil, cfg, ev))
			}
			res = append(res, scanCandidates(env, "count", env.Pick(25000, 400000), false, scanCount)...)
			return res
		},
		Cover: func(t core.Case, cov map[string]int) bool {
			coverAPI(t, cov)
			nt := false
			for _, e := range evs(t) {
				k := 0
				switch s(e, "op") {
				case "count":
					k = n(e, "k")
				case "enum":
					k = n(e, "ret")
				default:
					continue
				}
				if k >= 2 {
					nt = true
				}
				if k == 0 {
					cov["models.zero"]++
				}
				for _, w := range sub(e, "wb") {
					if s(w, "k") == "block" {
						cov["wb.block.len"+itoa(len(w["lits"].([]any)))]++
					}
				}
			}
			if len(sub(t, "cons")) == 0 {
				cov["problem.empty"]++
			}
			return nt
		},
		Rule:    "cases: problems over n<=7 declared variables (clauses, cardinality, PB; no constraint at all; declared-but-unused variables; fully decided at parse time) through CountModels, Enumerate(nil), Enumerate(chan); non-trivial = at least 2 models",
		Require: []string{"op.count", "op.enum", "models.zero", "problem.empty", "wb.block"},
	})

	// C09 — incremental solving
	register(&core.Check{
		ID:          "C09",
		Amplify:     amplifyAPI,
		Designs:     append(histDesigns("append"), appendPBDesigns(true)...),
		TraceModule: "APITrace",
		Cases: func(env *core.Env) []core.Case {
			r := env.Rand
			var res []core.Case
			for i := 0; i < env.Pick(1500, 20000); i++ {
				front, n, strict, cons := randMixedProblem(r, 5)
				cfg := gen.Cfg(false, 0, 0, false, false, true)
				var ev []gen.M
				depth := 2 + r.Intn(8)
				cur := n
				for d := 0; d < depth; d++ {
					if r.Intn(5) < 2 {
						ev = append(ev, gen.Op("solve"))
					} else {
						nn := cur
						if r.Intn(4) == 0 {
							nn = cur + 1 + r.Intn(2)
						}
						if nn == 0 {
							nn = 1
						}
						c := gen.RandAppendCtor(r, nn, false, r.Intn(3) == 0)
						if r.Intn(6) == 0 { // a constraint over several variables never seen before, in any order
							k := 2 + r.Intn(3)
							lits := make([]int, k)
							for j, p := range r.Perm(k) {
								lits[j] = cur + 1 + p
								if r.Intn(2) == 0 {
									lits[j] = -lits[j]
								}
							}
							if r.Intn(2) == 0 {
								c = gen.Clause(lits...)
							} else {
								c = gen.Ctor("atleast", lits, nil, 1+r.Intn(k))
							}
						}
						if len(cons) > 0 && r.Intn(6) == 0 {
							// a conjunction of literals that falsifies an existing constraint: every literal is
							// individually possible, the contradiction only shows through propagation
							b := cons[r.Intn(len(cons))]
							if ls := b["lits"].([]int); b["k"] == "clause" && len(ls) >= 2 && distinctVars(ls) {
								neg := make([]int, len(ls))
								for j, l := range ls {
									neg[j] = -l
								}
								c = gen.Ctor("atleast", neg, nil, len(neg))
							}
						}
						if mv := maxVarOfCons([]gen.M{c}); mv > cur {
							cur = mv
						}
						ev = append(ev, gen.M{"op": "append", "c": c})
					}
				}
				ev = append(ev, gen.Op("solve"))
				res = append(res, gen.APICase(front, n, strict, cons, false, nil, cfg, ev))
			}
			res = append(res, scanCandidates(env, "hist", env.Pick(40000, 600000), false, scanHist)...)
			return res
		},
		Cover: func(t core.Case, cov map[string]int) bool {
			coverAPI(t, cov)
			solved, nt := false, false
			for _, e := range evs(t) {
				switch s(e, "op") {
				case "solve":
					solved = true
				case "append":
					if solved {
						nt = true
					}
					c, _ := e["c"].(map[string]any)
					cov["append."+s(c, "k")]++
				}
			}
			return nt
		},
		Rule:    "cases: histories (Solve | AppendClause(c))* of depth 3..10 on base problems with n<=5 (clauses, cardinality, PB), appended constraints: clauses (incl. repeated / complementary literals, units), cardinality and PB constraints, variables beyond the current variable set; non-trivial = an append after a solve",
		Require: []string{"append.clause", "append.atleast", "append.gteq", "reply.solve.SAT", "reply.solve.UNSAT"},
	})

	// C10 — assumptions
	register(&core.Check{
		ID:      "C10",
		Amplify: amplifyAPI,
		Mech:    &core.Mech{Module: "SearchTrace", Project: mechAPI, Quick: 200, Thorough: 5000},
		Designs: append(histDesigns("assume"),
			core.Design{Name: "incremental-keep", Module: "Incremental", Cfg: "Incremental_keep.cfg", Workers: 6, XmxMB: 4000, Timeout: 5 * time.Minute},
			core.Design{Name: "incremental-wipe", Module: "Incremental", Cfg: "Incremental_wipe.cfg", Workers: 1, XmxMB: 2000, Timeout: 5 * time.Minute, ExpectViolation: "RefinesAPI"},
			core.Design{Name: "cdcl-under-assumptions", Module: "CDCLAssume", Cfg: "CDCLAssume_quick.cfg", Tier: "quick", Workers: 6, XmxMB: 8000, Timeout: 20 * time.Minute},
			core.Design{Name: "cdcl-under-assumptions", Module: "CDCLAssume", Cfg: "CDCLAssume_thorough.cfg", Tier: "thorough", Workers: 16, XmxMB: 12000, Timeout: 60 * time.Minute},
			core.Design{Name: "cdcl-assumption-shortcut", Module: "CDCLAssume", Cfg: "CDCLAssume_shortcut.cfg", Workers: 4, XmxMB: 4000, Timeout: 10 * time.Minute, ExpectViolation: "LearnEntailed"},
			// rounds of Assume + Solve over clauses, cardinality and PB constraints (PBCDCL with NewRound / AssumeLit):
			// answers relative to the assumptions of the round, what is learned holds without them
			core.Design{Name: "search-rounds", Module: "PBCDCL", Cfg: "PBCDCL_rounds.cfg", Tier: "thorough", Workers: 16, XmxMB: 16000, Timeout: 30 * time.Minute}),
		TraceModule: "APITrace",
		Cases: func(env *core.Env) []core.Case {
			r := env.Rand
			var res []core.Case
			for i := 0; i < env.Pick(1500, 20000); i++ {
				nv := 1 + r.Intn(6)
				clauses := gen.RandCNF(r, nv, r.Intn(3*nv+1), 3, false)
				if r.Intn(2) == 0 { // unit clauses / facts
					clauses = append(clauses, []int{gen.RandLit(r, nv)})
				}
				rounds := 1 + r.Intn(4)
				if i%2 == 0 { // conflicts under assumptions: 3-SAT below the threshold, implications, a fact
					nv = 6 + r.Intn(3)
					clauses = gen.RandKSAT(r, nv, int(3.2*float64(nv))+r.Intn(nv), 3)
					clauses = append(clauses, gen.RandKSAT(r, nv, 1+r.Intn(4), 2)...)
					if r.Intn(3) > 0 {
						clauses = append(clauses, []int{gen.RandLit(r, nv)})
					}
					clauses = gen.Shuffle(r, clauses)
					rounds = 4 + r.Intn(5)
				}
				cfg := gen.Cfg(false, 0, 0, false, false, true)
				var ev []gen.M
				var prev []int
				for d := 0; d < rounds; d++ {
					k := r.Intn(4)
					ls := make([]int, 0, k)
					for j := 0; j < k; j++ {
						ls = append(ls, gen.RandLit(r, nv))
					}
					if len(prev) > 0 && r.Intn(3) > 0 { // contradict an assumption of an earlier round
						ls = append(ls, -prev[r.Intn(len(prev))])
					}
					if r.Intn(5) == 0 {
						ls = ls[:0] // a round without assumptions in between
					}
					if len(ls) > 0 {
						prev = append([]int{}, ls...)
					}
					ev = append(ev, gen.M{"op": "assume", "ls": ls}, gen.Op("solve"))
				}
				res = append(res, gen.APICase("slicenb", nv, true, gen.ClauseCtors(clauses), false, nil, cfg, ev))
			}
			res = append(res, scanCandidates(env, "assume", env.Pick(25000, 600000), false, scanAssume)...)
			return res
		},
		Cover: func(t core.Case, cov map[string]int) bool {
			coverAPI(t, cov)
			rounds := 0
			for _, e := range evs(t) {
				if s(e, "op") == "assume" {
					rounds++
					if len(e["ls"].([]any)) == 0 {
						cov["assume.empty"]++
					}
				}
			}
			return rounds >= 2
		},
		Rule:    "cases: base CNF problems n<=6 (with unit clauses / parse-time facts) x 1..4 rounds Assume(ls); Solve with ls any list of 0..3 literals (repeated, complementary, contradicting facts or the previous round); non-trivial = at least two rounds",
		Require: []string{"op.assume", "assume.empty", "reply.solve.SAT", "reply.solve.UNSAT"},
	})

	// C15 — at-most-one detection
	register(&core.Check{
		ID:      "C15",
		Amplify: amplifyAPI,
		Designs: []core.Design{
			{Name: "amo", Module: "AMO", Cfg: "AMO.cfg", Workers: 8, XmxMB: 6000, Timeout: 10 * time.Minute, ToCases: func(env *core.Env, emitted []core.Case) []core.Case {
				var res []core.Case
				for i, e := range emitted {
					var clauses [][]int
					for _, c := range e["F"].([]any) {
						clauses = append(clauses, toInts(c))
					}
					if len(clauses) < 2 {
						continue
					}
					if env.Quick() && i%2 == 1 { // quick tier: every other set
						continue
					}
					if i%4 >= 2 {
						clauses = gen.Shuffle(env.Rand, clauses)
					}
					cfg := gen.Cfg(false, 0, 0, i%3 == 0, true, false)
					ev := []gen.M{gen.Op("solve")}
					if i%5 == 0 {
						ev = []gen.M{gen.Op("count")}
					}
					res = append(res, gen.APICase("slicenb", 3, true, gen.ClauseCtors(clauses), false, nil, cfg, ev))
				}
				return res
			}},
		},
		TraceModule: "APITrace",
		Cases: func(env *core.Env) []core.Case {
			r := env.Rand
			var res []core.Case
			for i := 0; i < env.Pick(2000, 30000); i++ {
				nv := 2 + r.Intn(6)
				var clauses [][]int
				// cliques of negative (or mixed) literals, complete or not, overlapping, repeated
				for g := 0; g < 1+r.Intn(3); g++ {
					k := 2 + r.Intn(min(nv, 5)-1)
					lits := gen.DistinctLits(r, nv, k)
					if r.Intn(3) > 0 {
						for j := range lits {
							if lits[j] > 0 {
								lits[j] = -lits[j]
							}
						}
					}
					for a := 0; a < len(lits); a++ {
						for c := a + 1; c < len(lits); c++ {
							if r.Intn(8) == 0 {
								continue // incomplete clique
							}
							clauses = append(clauses, []int{lits[a], lits[c]})
							if r.Intn(10) == 0 {
								clauses = append(clauses, []int{lits[c], lits[a]}) // repeated binary
							}
						}
					}
				}
				for j := 0; j < r.Intn(4); j++ {
					clauses = append(clauses, gen.RandClause(r, nv, 2+r.Intn(2), true))
				}
				if r.Intn(2) == 0 {
					clauses = gen.Shuffle(r, clauses)
				}
				cfg := gen.Cfg(false, 0, 0, r.Intn(2) == 0, true, false)
				ev := []gen.M{gen.Op("solve")}
				if r.Intn(3) == 0 {
					ev = []gen.M{gen.Op("count")}
				}
				res = append(res, gen.APICase("slicenb", nv, true, gen.ClauseCtors(clauses), false, nil, cfg, ev))
			}
			return res
		},
		Cover: func(t core.Case, cov map[string]int) bool {
			coverAPI(t, cov)
			for _, e := range evs(t) {
				if s(e, "op") == "amo" {
					after, _ := e["after"].(map[string]any)
					for _, c := range sub(after, "cons") {
						if n(c, "d") > 1 {
							cov["amo.detected"]++
							return true
						}
					}
				}
			}
			return false
		},
		Rule:    "cases: binary-rich CNF over n<=7 (complete / incomplete / overlapping cliques of negative or mixed literals, repeated binaries, stray binaries, longer clauses, shuffled) through ParseSliceNb -> DetectAtMostOne, then solved or counted (with and without cutting planes); non-trivial = a cardinality constraint was actually produced",
		Require: []string{"op.amo", "amo.detected"},
	})
}

func min(a, b int) int {
	if a < b {
		return a
	}
	return b
}

func itoa(i int) string {
	if i > 9 {
		return "10+"
	}
	return string(rune('0' + i))
}
