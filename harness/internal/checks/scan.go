package checks

import (
	"time"

	"verifharness/internal/core"
	"verifharness/internal/gen"
)

// scanCandidates runs the candidate selector of the driver (drive.Scan) in 16 processes and turns what
// it selected into ordinary cases, which then go through the normal pipeline (executed again, validated
// by TLC). The selector compares variants of the same input run on the real code (clause order,
// heuristic knobs, entry points, live versus fresh solver) and evaluates replies directly; it decides
// nothing: only the validated execution of a selected case can become a verdict.
func scanCandidates(env *core.Env, mode string, perShard int, cp bool, conv func(f gen.M) []core.Case) []core.Case {
	return scanCandidatesN(env, mode, perShard, cp, 12, 120, conv)
}

// scanCandidatesN: at most maxFound selected inputs per process, at most total cases overall.
func scanCandidatesN(env *core.Env, mode string, perShard int, cp bool, maxFound, total int, conv func(f gen.M) []core.Case) []core.Case {
	var scans []core.Case
	for k := 0; k < 16; k++ {
		scans = append(scans, gen.M{"drv": "scan", "mode": mode, "cp": cp, "seed": env.Rand.Intn(1 << 30), "count": perShard, "maxFound": maxFound,
			"budgetMs": 900000, "ev": []gen.M{}})
	}
	core.AssignIDs("scan-"+mode+"-", scans)
	out, err := core.Execute(env, env.Vdrive, scans, 15*time.Minute, "scan-"+mode)
	if err != nil {
		env.Logf("candidate scan %s failed: %v", mode, err)
		return nil
	}
	var res []core.Case
	scanned := 0
	for _, t := range out {
		for _, e := range evs(t) {
			if s(e, "op") != "scan" { // the scan itself crashed or timed out: nothing selected (the pipeline cases cover crashes)
				env.Logf("candidate scan %s: shard ended with %s", mode, s(e, "op"))
				continue
			}
			scanned += n(e, "scanned")
			for _, f := range sub(e, "found") {
				res = append(res, conv(f)...)
			}
		}
	}
	if len(res) > total {
		res = res[:total]
	}
	env.Counters["scan."+mode+".inputs"] += scanned
	env.Counters["scan."+mode+".selected"] += len(res)
	env.Logf("candidate scan %s: %d generated inputs run on the real code in several variants, %d candidate cases selected", mode, scanned, len(res))
	return res
}

func clausesOf(f gen.M) [][]int {
	var res [][]int
	l, _ := f["clauses"].([]any)
	for _, c := range l {
		res = append(res, toInts(c))
	}
	return res
}

func boolsOf(v any) []bool {
	l, _ := v.([]any)
	res := make([]bool, 0, len(l))
	for _, x := range l {
		bv, _ := x.(bool)
		res = append(res, bv)
	}
	return res
}

// scanCNF: C01 / C06. Verdicts across clause orders and knobs, planted solutions. Judged by CertTrace:
// the witness (planted, or the model another variant returned) is evaluated by TLC on the clauses.
func scanCNF(cert bool) func(f gen.M) []core.Case {
	return func(f gen.M) []core.Case {
		cfg := gen.Cfg(cert, n(f, "reduceAt"), n(f, "restartEvery"), false, false, true)
		c := gen.APICase("slicenb", n(f, "n"), true, gen.ClauseCtors(clausesOf(f)), false, nil, cfg, []gen.M{gen.Op("solve")})
		c["tm"], c["witness"] = "CertTrace", boolsOf(f["witness"])
		return []core.Case{deepCopy(c)}
	}
}

func gteqCtors(f gen.M) []gen.M {
	var cons []gen.M
	for _, k := range sub(f, "cons") {
		cons = append(cons, gen.Ctor("gteq", toInts(k["lits"]), toInts(k["w"]), n(k, "rhs")))
	}
	return cons
}

// scanPB: C02 / C14. Judged by APITrace (model sets over at most 12 variables).
func scanPB(f gen.M) []core.Case {
	c := gen.APICase("pb", n(f, "n"), false, gteqCtors(f), false, nil, gen.Cfg(false, 0, 0, b(f, "cp"), false, true), []gen.M{gen.Op("solve")})
	c["wbStrict"] = b(f, "cp")
	return []core.Case{deepCopy(c)}
}

// scanOpt: C03 / C14.
func scanOpt(f gen.M) []core.Case {
	o, _ := f["obj"].(map[string]any)
	obj := gen.M{"lits": toInts(o["lits"]), "w": toInts(o["w"])}
	op := gen.Op("minimize")
	if s(f, "op") == "optimal" {
		op = gen.OpChan("optimal", false)
	}
	c := gen.APICase("pb", n(f, "n"), false, gteqCtors(f), true, obj, gen.Cfg(false, 0, 0, b(f, "cp"), false, true), []gen.M{op})
	c["wbStrict"] = b(f, "cp")
	return []core.Case{deepCopy(c)}
}

// scanAssume: C10.
func scanAssume(f gen.M) []core.Case {
	var ev []gen.M
	rounds, _ := f["rounds"].([]any)
	for _, ls := range rounds {
		ev = append(ev, gen.M{"op": "assume", "ls": toInts(ls)}, gen.Op("solve"))
	}
	c := gen.APICase("slicenb", n(f, "n"), true, gen.ClauseCtors(clausesOf(f)), false, nil, gen.Cfg(false, 0, 0, false, false, true), ev)
	return []core.Case{deepCopy(c)}
}

// scanHist: C09.
func scanHist(f gen.M) []core.Case {
	var ev []gen.M
	for _, o := range sub(f, "ops") {
		if s(o, "op") == "append" {
			ev = append(ev, gen.M{"op": "append", "c": gen.Clause(toInts(o["lits"])...)})
		} else {
			ev = append(ev, gen.Op("solve"))
		}
	}
	c := gen.APICase("slicenb", n(f, "n"), true, gen.ClauseCtors(clausesOf(f)), false, nil, gen.Cfg(false, 0, 0, false, false, true), ev)
	return []core.Case{deepCopy(c)}
}

// scanCount: C05.
func scanCount(f gen.M) []core.Case {
	op := gen.Op("count")
	if b(f, "enum") {
		op = gen.OpChan("enum", false)
	}
	cfg := gen.Cfg(false, n(f, "reduceAt"), n(f, "restartEvery"), false, false, true)
	c := gen.APICase("slicenb", n(f, "n"), true, gen.ClauseCtors(clausesOf(f)), false, nil, cfg, []gen.M{op})
	return []core.Case{deepCopy(c)}
}

// scanMaxSat: C04. Each selected instance goes through both routes (WCNF text, constraint API twice).
func scanMaxSat(f gen.M) []core.Case {
	var cons []gen.M
	for _, k := range sub(f, "cons") {
		c := gen.Ctor("clause", toInts(k["lits"]), toInts(k["w"]), 1)
		c["weight"] = n(k, "weight")
		cons = append(cons, c)
	}
	w := gen.M{"drv": "maxsat", "route": "wcnf", "n": n(f, "n"), "cons": cons, "top": n(f, "top"),
		"cfg": gen.M{"layout": 0, "layoutSeed": 0, "cap": 0}, "ev": []gen.M{gen.OpChan("optimal", false)}}
	a := gen.M{"drv": "maxsat", "route": "api", "n": n(f, "n"), "cons": cons, "top": 0,
		"cfg": gen.M{"layout": 0, "layoutSeed": 0, "cap": 0}, "ev": []gen.M{gen.Op("solve"), gen.Op("solve"), gen.Op("solve")}}
	return []core.Case{deepCopy(w), deepCopy(a)}
}

// scanOPB: C13. The selected constraint lists are printed as OPB text, parsed, dumped and counted.
func scanOPB(f gen.M) []core.Case {
	var cons []gen.M
	for _, k := range sub(f, "cons") {
		cons = append(cons, gen.Ctor(s(k, "k"), toInts(k["lits"]), toInts(k["w"]), n(k, "rhs")))
	}
	c := gen.M{"drv": "fmt", "kind": "opb", "n": n(f, "n"), "cons": cons, "hasObj": false, "obj": gen.NoObj(),
		"cfg": gen.M{"layout": 0, "layoutSeed": 0, "reader": 0, "cap": 0, "cert": false, "reduceAt": 0, "restartEvery": 0, "cp": false, "amo": false, "wb": false},
		"ev": []gen.M{gen.Op("parse")}}
	return []core.Case{deepCopy(c)}
}
