package checks

import (
	"math/rand"
	"strings"
	"time"

	"verifharness/internal/core"
	"verifharness/internal/gen"
)

func fmtCfg(r *rand.Rand, maxLevel int) gen.M {
	return gen.M{"layout": r.Intn(maxLevel + 1), "layoutSeed": r.Intn(1 << 20), "reader": r.Intn(4), "cap": 0, "cert": false, "reduceAt": 0, "restartEvery": 0, "cp": false, "amo": false, "wb": false}
}

// opbCons: a linear constraint as an OPB file can state it (relations >=, = ; <= is printed negated).
func opbCons(r *rand.Rand, n, W int) gen.M {
	k := 1 + r.Intn(min(n, 4))
	lits := gen.DistinctLits(r, n, k)
	w := make([]int, k)
	sumPos, sumNeg := 0, 0
	for i := range w {
		w[i] = r.Intn(2*W+1) - W // zero coefficients are legal OPB
		if w[i] > 0 {
			sumPos += w[i]
		} else {
			sumNeg += w[i]
		}
	}
	rhs := sumNeg - 1 + r.Intn(sumPos-sumNeg+3)
	kind := []string{"gteq", "gteq", "eq", "lteq"}[r.Intn(4)]
	if r.Intn(4) == 0 { // all coefficients positive, in any order (the usual shape of benchmark files)
		sumPos = 0
		for i := range w {
			w[i] = 1 + r.Intn(W)
			sumPos += w[i]
		}
		rhs = r.Intn(sumPos + 1)
		kind = []string{"eq", "gteq"}[r.Intn(2)]
	}
	return gen.Ctor(kind, lits, w, rhs)
}

// textCases: every well-formed text enumerated by FormatsGen.tla goes through the readers of its
// format as it is (the bytes come from the specification, the driver only feeds them): DIMACS through
// solver.ParseCNF and explain.ParseCNF, OPB through solver.ParseOPB, WCNF through maxsat.ParseWCNF
// followed by Optimal. In the quick tier the larger enumerations are sampled.
func textCases(sample int) func(env *core.Env, emitted []core.Case) []core.Case {
	return func(env *core.Env, emitted []core.Case) []core.Case {
		var res []core.Case
		step := 1
		if env.Quick() && sample > 0 && len(emitted) > sample {
			step = len(emitted)/sample + 1
		}
		off := 0
		if step > 1 {
			off = env.Rand.Intn(step)
		}
		for i := off; i < len(emitted); i += step {
			e := emitted[i]
			kind, _ := e["kind"].(string)
			base := func(drv string) gen.M {
				return gen.M{"drv": drv, "kind": kind, "n": int(e["n"].(float64)), "m": int(e["m"].(float64)), "withTop": e["withTop"],
					"ts": e["ts"], "text": e["text"], "cons": []gen.M{}, "hasObj": false, "obj": gen.NoObj(), "cfg": fmtCfg(env.Rand, 0)}
			}
			switch kind {
			case "cnf":
				c := base("fmt")
				c["ev"] = []gen.M{gen.Op("parse"), gen.Op("eparse")}
				res = append(res, c)
			case "opb":
				c := base("fmt")
				c["ev"] = []gen.M{gen.Op("parse")}
				res = append(res, c)
			case "wcnf":
				c := base("maxsat")
				c["route"], c["top"], c["tm"] = "wcnf", 0, "MaxSatTrace"
				c["ev"] = []gen.M{gen.OpChan("optimal", false)}
				res = append(res, c)
			}
		}
		return res
	}
}

func init() {
	register(&core.Check{
		ID:          "C13",
		TraceModule: "FormatsTrace",
		Designs: []core.Design{
			{Name: "texts-cnf", Module: "FormatsGen", Cfg: "FormatsGen_cnf.cfg", Tier: "quick", Workers: 8, XmxMB: 4000, Timeout: 10 * time.Minute, ToCases: textCases(0)},
			{Name: "texts-wcnf", Module: "FormatsGen", Cfg: "FormatsGen_wcnf.cfg", Tier: "quick", Workers: 8, XmxMB: 4000, Timeout: 10 * time.Minute, ToCases: textCases(0)},
			{Name: "texts-opb", Module: "FormatsGen", Cfg: "FormatsGen_opb.cfg", Tier: "quick", Workers: 8, XmxMB: 4000, Timeout: 10 * time.Minute, ToCases: textCases(2500)},
			{Name: "texts-cnf", Module: "FormatsGen", Cfg: "FormatsGen_cnf_thorough.cfg", Tier: "thorough", Workers: 16, XmxMB: 8000, Timeout: 20 * time.Minute, ToCases: textCases(0)},
			{Name: "texts-wcnf", Module: "FormatsGen", Cfg: "FormatsGen_wcnf_thorough.cfg", Tier: "thorough", Workers: 16, XmxMB: 8000, Timeout: 20 * time.Minute, ToCases: textCases(0)},
			{Name: "texts-opb", Module: "FormatsGen", Cfg: "FormatsGen_opb_thorough.cfg", Tier: "thorough", Workers: 16, XmxMB: 8000, Timeout: 30 * time.Minute, ToCases: textCases(0)},
		},
		Cases: func(env *core.Env) []core.Case {
			r := env.Rand
			var res []core.Case
			for i := 0; i < env.Pick(2400, 30000); i++ {
				switch r.Intn(4) {
				case 0, 1: // DIMACS through both readers
					n := r.Intn(7)
					var clauses [][]int
					if n > 0 {
						clauses = gen.RandCNF(r, n, r.Intn(3*n+1), 4, r.Intn(3) == 0)
					}
					n += r.Intn(2) * r.Intn(3) // declared but unused variables
					op := "parse"
					if r.Intn(2) == 0 {
						op = "eparse"
					}
					res = append(res, gen.M{"drv": "fmt", "kind": "cnf", "n": n, "cons": gen.ClauseCtors(clauses), "hasObj": false, "obj": gen.NoObj(),
						"cfg": fmtCfg(r, 2), "ev": []gen.M{gen.Op(op)}})
				case 2: // OPB
					n := 1 + r.Intn(5)
					var cons []gen.M
					for j := 0; j < r.Intn(5); j++ {
						cons = append(cons, opbCons(r, n, 3))
					}
					if cons == nil {
						cons = []gen.M{}
					}
					hasObj := r.Intn(2) == 0
					obj := gen.NoObj()
					if hasObj {
						obj = gen.RandObj(r, n, -3, 3)
					}
					res = append(res, gen.M{"drv": "fmt", "kind": "opb", "n": n, "cons": cons, "hasObj": hasObj, "obj": obj,
						"cfg": fmtCfg(r, 1), "ev": []gen.M{gen.Op("parse")}})
				default: // WCNF: only observable through the optimisation answer
					n := 1 + r.Intn(5)
					var cons []gen.M
					for j := 0; j < 1+r.Intn(5); j++ {
						cons = append(cons, msCons(r, n, true))
					}
					c := wcnfCase(r, n, cons)
					c["tm"] = "MaxSatTrace"
					c["cfg"].(gen.M)["layout"] = r.Intn(2)
					c["cfg"].(gen.M)["layoutSeed"] = r.Intn(1 << 20)
					c["cfg"].(gen.M)["reader"] = r.Intn(4)
					res = append(res, c)
				}
			}
			res = append(res, scanCandidates(env, "opb", env.Pick(30000, 500000), false, scanOPB)...)
			return res
		},
		Cover: func(t core.Case, cov map[string]int) bool {
			kind := s(t, "kind")
			if s(t, "drv") == "maxsat" {
				kind = "wcnf"
			}
			cov["kind."+kind]++
			cfg, _ := t["cfg"].(map[string]any)
			cov["layout."+itoa(n(cfg, "layout"))]++
			cov["reader."+itoa(n(cfg, "reader"))]++
			if b(t, "hasObj") {
				cov["opb.objective"]++
			}
			for _, e := range evs(t) {
				cov["op."+s(e, "op")]++
			}
			if ts, _ := t["ts"].([]any); len(ts) > 0 {
				cov["text."+kind]++
				if txt := s(t, "text"); !strings.HasSuffix(txt, "\n") {
					cov["text.no-final-newline"]++
				}
				return len(ts) >= 4
			}
			return len(sub(t, "cons")) >= 2
		},
		Rule:    "cases: (a) every well-formed text FormatsGen.tla enumerates (all token strings of length <= 5 / 7 for DIMACS and WCNF over 2 variables: clauses spanning lines, several clauses per line, comment lines, last line without newline; OPB texts built from statements with at most 2 terms), fed byte for byte to the readers (delivered at once, one byte per Read, in halves, or with the last data together with io.EOF) and judged by the reference readers of Formats.tla; (b) abstract files (DIMACS n<=8 incl. empty / duplicate-literal / tautological clauses and unused variables; OPB n<=5 with <=4 constraints, coefficients in [-3,3], relations >=, =, trivially true / false constraints, objective with coefficients of either sign; WCNF n<=7 with / without top weight) printed with seeded free layout (spacing, tabs, CRLF, comments, clauses spanning lines or sharing a line, '+' signs) and read by solver.ParseCNF, explain.ParseCNF, solver.ParseOPB, maxsat.ParseWCNF; non-trivial = at least two constraints",
		Require: []string{"kind.cnf", "kind.opb", "kind.wcnf", "op.parse", "op.eparse", "layout.0", "layout.1", "layout.2", "opb.objective", "text.cnf", "text.opb", "text.wcnf", "text.no-final-newline", "reader.0", "reader.1", "reader.2", "reader.3"},
	})

	register(&core.Check{
		ID:          "C18",
		TraceModule: "FormatsTrace",
		Cases: func(env *core.Env) []core.Case {
			r := env.Rand
			var res []core.Case
			for i := 0; i < env.Pick(2400, 30000); i++ {
				front, n, strict, cons := randMixedProblem(r, 6)
				if r.Intn(3) == 0 { // more propositional problems with units (parse-time simplification)
					nv := 1 + r.Intn(6)
					clauses := gen.RandCNF(r, nv, r.Intn(3*nv+1), 3, false)
					clauses = append(clauses, []int{gen.RandLit(r, nv)})
					front, n, strict, cons = "slicenb", nv, true, gen.ClauseCtors(clauses)
				}
				_ = strict
				if n == 0 {
					continue
				}
				printers := []string{"pb.CNF", "pb.PBString", "solver.PBString", "explain.CNF"}
				p := printers[r.Intn(len(printers))]
				solveFirst := r.Intn(2) == 0
				if r.Intn(5) == 0 { // the solver's state after a search that learned clauses
					nv := 6 + r.Intn(3)
					front, n, cons = "slicenb", nv, gen.ClauseCtors(gen.RandKSAT(r, nv, int(3.9*float64(nv))+r.Intn(4), 3))
					p, solveFirst = "solver.PBString", true
				}
				if p == "explain.CNF" {
					nv := 1 + r.Intn(6)
					clauses := gen.RandCNF(r, nv, r.Intn(3*nv+1), 3, false)
					res = append(res, gen.M{"drv": "fmt", "kind": "cnf", "n": nv, "cons": gen.ClauseCtors(clauses), "hasObj": false, "obj": gen.NoObj(),
						"cfg": fmtCfg(r, 0), "ev": []gen.M{gen.Op("eprint")}})
					continue
				}
				hasObj := p != "pb.CNF" && r.Intn(2) == 0
				obj := gen.NoObj()
				if hasObj {
					obj = gen.RandObj(r, n, 0, 3)
				}
				c := gen.APICase(front, n, false, cons, hasObj, obj, fmtCfg(r, 0), []gen.M{{"op": "print", "printer": p, "solveFirst": solveFirst, "assumeFirst": r.Intn(3) == 0, "printedBefore": r.Intn(3) == 0, "seed": r.Intn(1 << 10)}})
				c["drv"] = "fmt"
				c["kind"] = "api"
				if hasObj && r.Intn(5) == 0 {
					w := obj["w"].([]int)
					for j := range w {
						w[j] = 1
					}
					c["objNilW"] = true
				}
				res = append(res, c)
			}
			return res
		},
		Cover: func(t core.Case, cov map[string]int) bool {
			nt := false
			for _, e := range evs(t) {
				op := s(e, "op")
				cov["op."+op]++
				if op == "print" {
					cov["printer."+s(e, "printer")]++
					if b(e, "hasObj") {
						cov["print.objective"]++
					}
					orig, _ := e["orig"].(map[string]any)
					if u, _ := orig["units"].([]any); len(u) > 0 {
						cov["print.units"]++
					}
					nt = len(sub(orig, "cons")) >= 1
				}
				if op == "eprint" {
					cov["printer.explain.CNF"]++
					nt = true
				}
			}
			return nt
		},
		Rule:    "cases: problems built by ParseSliceNb / ParseCardConstrs / ParsePBConstrs (n<=6, after parse-time simplification: units, removed literals and constraints), with and without cost function (nil weights included), printed by Problem.CNF (propositional problems only), Problem.PBString, Solver.PBString (before / after a Solve), explain.Problem.CNF and read back by the matching parser; non-trivial = the printed problem has at least one non-unit constraint",
		Require: []string{"printer.pb.CNF", "printer.pb.PBString", "printer.solver.PBString", "printer.explain.CNF", "print.objective", "print.units"},
	})
}
