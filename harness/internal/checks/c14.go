package checks

import (
	"encoding/json"
	"time"

	"verifharness/internal/core"
	"verifharness/internal/gen"
)

func deepCopy(m gen.M) gen.M {
	b, _ := json.Marshal(m)
	var r gen.M
	json.Unmarshal(b, &r)
	return r
}

// cpScanCandidates runs the candidate selector of the driver (drive.CPScan: many small random PB
// optimisation problems with the strategy off and on) and turns what it returns into ordinary cases,
// which are then executed and validated like all the others.
func cpScanCandidates(env *core.Env) []core.Case {
	var scans []core.Case
	for k := 0; k < 16; k++ {
		scans = append(scans, gen.M{"drv": "cpscan", "seed": env.Rand.Intn(1 << 30), "count": env.Pick(600, 100000), "budgetMs": 600000, "ev": []gen.M{}})
	}
	core.AssignIDs("scan-", scans)
	out, err := core.Execute(env, env.Vdrive, scans, 10*time.Minute, "cpscan")
	if err != nil {
		env.Logf("candidate scan failed: %v", err)
		return nil
	}
	var res []core.Case
	scanned := 0
	for _, t := range out {
		for _, e := range evs(t) {
			scanned += n(e, "scanned")
			for _, f := range sub(e, "found") {
				var cons []gen.M
				for _, k := range sub(f, "cons") {
					cons = append(cons, gen.Ctor("gteq", toInts(k["lits"]), toInts(k["w"]), n(k, "rhs")))
				}
				o, _ := f["obj"].(map[string]any)
				obj := gen.M{"lits": toInts(o["lits"]), "w": toInts(o["w"])}
				for _, cp := range []bool{false, true} {
					c := gen.APICase("pb", n(f, "n"), false, cons, true, obj, gen.Cfg(false, 0, 0, cp, false, true), []gen.M{gen.Op("minimize")})
					c["wbStrict"] = cp
					res = append(res, deepCopy(c))
				}
			}
		}
	}
	env.Logf("candidate scan: %d random PB optimisation problems run with the strategy off and on, %d candidate cases", scanned, len(res))
	return res
}

// cpFunCases: every input enumerated by CuttingPlanes.tla (constraint, pivot, assignment; pairs of
// constraints) and SimplifyLearned.tla (constraints) goes through the real roundToOne / clash /
// SimplifyPB; the results are compared with the functions of CPOps.tla by CPTrace.tla.
func cpFunCases(env *core.Env, emitted []core.Case) []core.Case {
	var res []core.Case
	for _, e := range emitted {
		ev := gen.M{}
		for k, v := range e {
			ev[k] = v
		}
		res = append(res, gen.M{"drv": "cpfun", "tm": "CPTrace", "ev": []gen.M{ev}})
	}
	return res
}

func init() {
	// C14 — the cutting-planes strategy never changes an answer
	register(&core.Check{
		ID:      "C14",
		Amplify: amplifyAPI,
		Designs: []core.Design{
			{Name: "cuttingplanes", Module: "CuttingPlanes", Cfg: "CuttingPlanes_quick.cfg", Tier: "quick", Workers: 8, XmxMB: 6000, Timeout: 10 * time.Minute, ToCases: cpFunCases},
			{Name: "cuttingplanes", Module: "CuttingPlanes", Cfg: "CuttingPlanes_thorough.cfg", Tier: "thorough", Workers: 16, XmxMB: 12000, Timeout: 30 * time.Minute, ToCases: cpFunCases},
			{Name: "simplify-learned", Module: "SimplifyLearned", Cfg: "SimplifyLearned_keep.cfg", Workers: 4, XmxMB: 4000, Timeout: 10 * time.Minute, ToCases: cpFunCases},
			{Name: "simplify-learned-rest-dropped", Module: "SimplifyLearned", Cfg: "SimplifyLearned_drop.cfg", Workers: 2, XmxMB: 2000, Timeout: 10 * time.Minute, ExpectViolation: "NothingLost"},
			{Name: "cuttingplanes-ceil", Module: "CuttingPlanes", Cfg: "CuttingPlanes_ceil.cfg", Workers: 2, XmxMB: 4000, Timeout: 10 * time.Minute, ExpectViolation: "RoundSound"},
		},
		TraceModule: "APITrace",
		Budget:      0,
		Cases: func(env *core.Env) []core.Case {
			r := env.Rand
			var res []core.Case
			for i := 0; i < env.Pick(1200, 15000); i++ {
				var front string
				var n int
				var strict bool
				var cons []gen.M
				obj := gen.NoObj()
				hasObj := false
				switch r.Intn(4) {
				case 0:
					front, n, strict, cons, obj = coveringProblem(r)
					if r.Intn(6) == 0 {
						front, n, strict, cons, obj = starsProblem(r)
					}
					hasObj = true
				case 1: // PB heavy
					front, strict = "pb", false
					nv := 3 + r.Intn(5)
					for j := 0; j < 2+r.Intn(4); j++ {
						cons = append(cons, gen.RandPBCtor(r, nv, 4))
					}
					n = maxVarOfCons(cons)
				default:
					front, n, strict, cons = randMixedProblem(r, 7)
				}
				if n == 0 {
					continue
				}
				if !hasObj && r.Intn(3) == 0 {
					hasObj, obj = true, gen.RandObj(r, n, 0, 3)
				}
				var ev []gen.M
				switch r.Intn(3) {
				case 0:
					ev = []gen.M{gen.Op("solve")}
				case 1:
					ev = []gen.M{gen.OpChan("optimal", false)}
				default:
					ev = []gen.M{gen.Op("minimize")}
				}
				amo := front == "slicenb" && r.Intn(2) == 0
				reduceAt, restartEvery := 0, 0
				if r.Intn(3) == 0 {
					reduceAt, restartEvery = 2+r.Intn(3), 2+r.Intn(3)
				}
				for _, cp := range []bool{false, true} {
					cfg := gen.Cfg(false, reduceAt, restartEvery, cp, amo && cp, true)
					c := gen.APICase(front, n, strict, cons, hasObj, obj, cfg, ev)
					c["wbStrict"] = cp
					res = append(res, deepCopy(c))
				}
			}
			res = append(res, cpScanCandidates(env)...)
			res = append(res, scanCandidates(env, "pb", env.Pick(10000, 500000), true, scanPB)...)
			res = append(res, scanCandidates(env, "opt", env.Pick(12000, 500000), true, scanOpt)...)
			return res
		},
		Cover: func(t core.Case, cov map[string]int) bool {
			if s(t, "drv") == "cpfun" {
				for _, e := range evs(t) {
					cov["cpfun."+s(e, "op")]++
				}
				return true
			}
			_, _, confl := coverAPI(t, cov)
			cfg, _ := t["cfg"].(map[string]any)
			if b(cfg, "cp") {
				cov["cfg.cp"]++
				for _, e := range evs(t) {
					for _, w := range sub(e, "wb") {
						if s(w, "k") == "learn-pb" {
							cov["cp.learned"]++
							ws, _ := w["w"].([]any)
							for _, x := range ws {
								if f, _ := x.(float64); f > 1 {
									cov["cp.learned.weighted"]++
									break
								}
							}
						}
					}
				}
				return confl > 0
			}
			return false
		},
		Rule:    "cases: each problem (CNF, cardinality, PB with coefficients <=4, with / without cost function, n<=7; with / without prior DetectAtMostOne; restart / reduce knobs) is run twice, strategy off and on, through Solve / Optimal / Minimize; both runs are validated against the meaning of the problem (same verdict and same optimum follow), and every constraint the cutting-planes analysis learns (hook event learn-pb) must be entailed; non-trivial = the cutting-planes run had at least one conflict",
		Require: []string{"cfg.cp", "cp.learned", "op.optimal", "op.minimize", "op.solve", "op.amo", "cpfun.round", "cpfun.clash", "cpfun.split"},
	})
}
