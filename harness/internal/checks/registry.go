// Package checks defines, for each property, its decision procedure: the design-level TLC runs,
// the case generators, the trace specification and the coverage gates.
package checks

import (
	"verifharness/internal/core"
)

type M = map[string]any

// All is the registry of checks by property id.
var All = map[string]*core.Check{}

func register(c *core.Check) { All[c.ID] = c }

func evs(t core.Case) []M {
	l, _ := t["ev"].([]any)
	res := make([]M, 0, len(l))
	for _, e := range l {
		if m, ok := e.(map[string]any); ok {
			res = append(res, m)
		}
	}
	return res
}

func sub(m M, k string) []M {
	l, _ := m[k].([]any)
	res := make([]M, 0, len(l))
	for _, e := range l {
		if x, ok := e.(map[string]any); ok {
			res = append(res, x)
		}
	}
	return res
}

func s(m M, k string) string { v, _ := m[k].(string); return v }
func b(m M, k string) bool   { v, _ := m[k].(bool); return v }
func n(m M, k string) int    { v, _ := m[k].(float64); return int(v) }

// coverAPI counts what an api trace exercised; it returns the numbers of decisions and propagations seen.
func coverAPI(t core.Case, cov map[string]int) (dec, prop, confl int) {
	cov["front."+s(t, "front")]++
	cfg, _ := t["cfg"].(map[string]any)
	if b(cfg, "cert") {
		cov["cfg.cert"]++
	}
	if n(cfg, "reduceAt") > 0 {
		cov["cfg.reduceAt"]++
	}
	for _, e := range evs(t) {
		op := s(e, "op")
		cov["op."+op]++
		if st := s(e, "status"); st != "" && (op == "solve" || op == "optimal") {
			cov["reply."+op+"."+st]++
		}
		for _, w := range sub(e, "wb") {
			k := s(w, "k")
			cov["wb."+k]++
			switch k {
			case "assign":
				if b(w, "dec") && n(w, "lvl") > 1 {
					dec++
				}
			case "prop":
				prop++
			case "conflict":
				confl++
			}
		}
		if l, ok := e["cert"].([]any); ok && len(l) > 0 {
			cov["cert.lines"] += len(l)
		}
	}
	return
}
