package checks

import (
	"os"
	"strconv"
	"time"

	"verifharness/internal/core"
	"verifharness/internal/gen"
)

// stars returns m disjoint stars (centre weight 2, three leaves of weight 1): clauses and cost function.
func stars(m int) (n int, clauses [][]int, lits, w []int) {
	v := 0
	for j := 0; j < m; j++ {
		v++
		c := v
		lits, w = append(lits, c), append(w, 2)
		for i := 0; i < 3; i++ {
			v++
			lits, w = append(lits, v), append(w, 1)
			clauses = append(clauses, []int{c, v})
		}
	}
	return v, clauses, lits, w
}

// streamCases: every maximal schedule enumerated by Stream.tla, on a problem that delivers exactly m results.
func streamCases(env *core.Env, emitted []core.Case) []core.Case {
	var res []core.Case
	for i, e := range emitted {
		m := int(e["m"].(float64))
		fwd, _ := e["forward"].(bool)
		c := gen.M{"drv": "stream", "tm": "StreamTrace", "m": m, "cap": int(e["cap"].(float64)), "forward": fwd, "sched": e["sched"],
			"hasObj": false, "obj": gen.NoObj(), "objNilW": false, "strict": true, "cfg": gen.Cfg(false, 0, 0, false, false, false), "top": 0, "ev": []gen.M{}}
		switch {
		case fwd: // maxsat: hard star clauses, soft unit clauses
			c["kind"] = "maxsat"
			if m == 1 { // only hard clauses: the first model is optimal
				c["n"], c["top"] = 2, 2
				c["cons"] = []gen.M{{"k": "clause", "lits": []int{1, 2}, "w": []int{1, 1}, "rhs": 1, "weight": 0}, {"k": "clause", "lits": []int{-1, 2}, "w": []int{1, 1}, "rhs": 1, "weight": 0}}
			} else {
				n, clauses, lits, w := stars(m - 1)
				var cons []gen.M
				for _, cl := range clauses {
					k := gen.Clause(cl...)
					k["weight"] = 0
					cons = append(cons, k)
				}
				for j, l := range lits {
					k := gen.Clause(-l)
					k["weight"] = w[j]
					cons = append(cons, k)
				}
				c["n"], c["top"], c["cons"] = n, 100, cons
			}
		case i%2 == 0: // optimisation
			c["kind"], c["front"] = "optimal", "slicenb"
			if m == 1 {
				c["n"], c["cons"] = 1, gen.ClauseCtors([][]int{{1}, {-1}})
			} else {
				n, clauses, lits, w := stars(m - 1)
				c["n"], c["cons"], c["hasObj"], c["obj"] = n, gen.ClauseCtors(clauses), true, gen.M{"lits": lits, "w": w}
			}
		default: // enumeration: exactly m models
			c["kind"], c["front"] = "enum", "slicenb"
			switch m {
			case 1:
				c["n"], c["cons"] = 1, gen.ClauseCtors([][]int{{1}})
			case 2:
				c["n"], c["cons"] = 1, gen.ClauseCtors(nil)
			default:
				c["n"], c["cons"] = 2, gen.ClauseCtors([][]int{{1, 2}})
			}
		}
		res = append(res, c)
	}
	return res
}

func init() {
	// C06 — RUP certificates. Semantic tier: APITrace (every line entailed + RUP chain + refutation).
	// Local tier: CertTrace (no model sets: RUP chain by unit propagation in TLA+, models evaluated).
	register(&core.Check{
		ID:          "C06",
		Amplify:     amplifyAPI,
		Designs:     cdclDesigns(true),
		TraceModule: "APITrace",
		Budget:      0,
		Cases: func(env *core.Env) []core.Case {
			res := cnfCases(env, env.Pick(1500, 15000), func(i int) bool { return i%4 != 3 })
			for _, c := range res {
				c["wbStrict"] = true
			}
			r := env.Rand
			// near-threshold instances with more conflicts, still in the semantic tier
			for i := 0; i < env.Pick(300, 4000); i++ {
				nv := 6 + r.Intn(4)
				clauses := gen.RandKSAT(r, nv, int(4.2*float64(nv))+r.Intn(4), 3)
				cfg := gen.Cfg(true, []int{0, 2, 4}[r.Intn(3)], []int{0, 3}[r.Intn(2)], false, false, true)
				c := gen.APICase("slicenb", nv, true, gen.ClauseCtors(clauses), false, nil, cfg, []gen.M{gen.Op("solve")})
				c["wbStrict"] = true
				res = append(res, c)
			}
			// local tier
			for i := 0; i < env.Pick(220, 1500); i++ {
				nv := 12 + r.Intn(env.Pick(24, 49))
				if i%2 == 0 { // many conflicts per run: learned binary clauses get reused as reasons
					nv = 24 + r.Intn(env.Pick(16, 37))
				}
				clauses := gen.RandKSAT(r, nv, int(4.26*float64(nv)), 3)
				cfg := gen.Cfg(true, []int{0, 4, 8}[r.Intn(3)], []int{0, 5}[r.Intn(2)], false, false, false)
				c := gen.APICase("slicenb", nv, true, gen.ClauseCtors(clauses), false, nil, cfg, []gen.M{gen.Op("solve")})
				c["tm"] = "CertTrace"
				res = append(res, c)
			}
			// sizes random formulas never reach: refutations with one decision level per variable, learned
			// clauses and certificate lines of 100 literals and more (local tier)
			for _, nn := range append([]int{9, 33, 101 + r.Intn(12)}, make([]int, env.Pick(0, 12))...) {
				if nn == 0 {
					nn = 60 + r.Intn(90)
				}
				ordered := nn >= 100 || r.Intn(2) == 0
				clauses, nv := gen.WideChain(r, nn, ordered)
				if !ordered && r.Intn(2) == 0 {
					clauses = gen.Shuffle(r, clauses)
				}
				c := gen.APICase("slicenb", nv, true, gen.ClauseCtors(clauses), false, nil, gen.Cfg(true, 0, 0, false, false, false), []gen.M{gen.Op("solve")})
				c["tm"], c["budgetMs"] = "CertTrace", 60000
				res = append(res, c)
			}
			// conflict analyses and certificate lines of more than a thousand literals (planted, satisfiable:
			// every emitted line must still follow by unit propagation)
			nWide := env.Pick(600, 4000)
			if v, err := strconv.Atoi(os.Getenv("VERIF_DEV_WIDE")); err == nil && v > 0 { // development aid
				nWide = v
			}
			res = append(res, wideClauseCases(env, nWide, true)...)
			res = append(res, scanCandidates(env, "cnf", env.Pick(10000, 150000), false, scanCNF(true))...)
			return res
		},
		Cover: func(t core.Case, cov map[string]int) bool {
			coverAPI(t, cov)
			if s(t, "tm") == "CertTrace" {
				cov["tier.local"]++
			}
			for _, e := range evs(t) {
				if l, _ := e["cert"].([]any); len(l) > 0 {
					if s(e, "status") == "UNSAT" {
						cov["cert.unsat-with-lines"]++
					} else {
						cov["cert.sat-with-lines"]++
					}
					return true
				}
			}
			return false
		},
		Rule:    "cases: CNF formulas x {certificate to channel, off} x {learned-clause limit default / forced small} x {restart knob}; semantic tier n<=9: every emitted line entailed (TLC, model sets) and the sequence a RUP derivation ending in a refutation on Unsat (unit propagation written in TLA+, no code shared with the solver or with package explain); local tier n=20..60: RUP chain and refutation only, Sat models evaluated clause by clause; non-trivial = the certificate has at least one line",
		Require: []string{"cfg.cert", "cert.unsat-with-lines", "cert.sat-with-lines", "tier.local", "cfg.reduceAt", "wb.restart", "wb.delete"},
	})

	// C20 — result streams: schedules enumerated by Stream.tla replayed through the gates, plus the
	// free-running layer (consumer capacity and delays)
	register(&core.Check{
		ID:          "C20",
		TraceModule: "APITrace",
		Designs: []core.Design{
			{Name: "stream", Module: "Stream", Cfg: "Stream_quick.cfg", Tier: "quick", Workers: 4, XmxMB: 2000, Timeout: 5 * time.Minute, ToCases: streamCases},
			{Name: "stream", Module: "Stream", Cfg: "Stream_thorough.cfg", Tier: "thorough", Workers: 8, XmxMB: 4000, Timeout: 10 * time.Minute, ToCases: streamCases},
			{Name: "stream-live", Module: "Stream", Cfg: "Stream_live.cfg", Workers: 4, XmxMB: 2000, Timeout: 5 * time.Minute},
		},
		Cases: func(env *core.Env) []core.Case {
			r := env.Rand
			var res []core.Case
			for i := 0; i < env.Pick(1500, 15000); i++ {
				capacity := r.Intn(5)
				delay := []int{0, 0, 50, 300}[r.Intn(4)]
				switch r.Intn(3) {
				case 0: // optimisation stream
					front, n, strict, cons, obj := coveringProblem(r)
					if r.Intn(3) == 0 { // larger problems: longer chains of improving models
						front, n, strict, cons, obj = coveringProblemN(r, 8+r.Intn(3))
					} else if r.Intn(3) == 0 {
						front, n, strict, cons, obj = starsProblem(r)
					}
					cfg := gen.Cfg(false, 0, 0, false, false, false)
					cfg["cap"], cfg["delayUs"] = capacity, delay
					res = append(res, gen.APICase(front, n, strict, cons, true, obj, cfg, []gen.M{gen.OpChan("optimal", true)}))
				case 1: // enumeration stream
					n := 2 + r.Intn(5)
					clauses := gen.RandCNF(r, n, 1+r.Intn(n), 3, false)
					cfg := gen.Cfg(false, 0, 0, false, false, false)
					cfg["cap"], cfg["delayUs"] = capacity, delay
					res = append(res, gen.APICase("slicenb", n, true, gen.ClauseCtors(clauses), false, nil, cfg, []gen.M{gen.OpChan("enum", true)}))
				default: // MaxSAT stream through the forwarding goroutine
					n := 2 + r.Intn(4)
					var cons []gen.M
					for j := 0; j < 2+r.Intn(5); j++ {
						cons = append(cons, msCons(r, n, true))
					}
					c := wcnfCase(r, n, cons)
					c["ev"] = []gen.M{gen.OpChan("optimal", true)}
					c["tm"] = "MaxSatTrace"
					c["cfg"].(gen.M)["cap"] = capacity
					c["cfg"].(gen.M)["delayUs"] = delay
					res = append(res, c)
				}
			}
			return res
		},
		Cover: func(t core.Case, cov map[string]int) bool {
			if s(t, "drv") == "stream" {
				for _, e := range evs(t) {
					if s(e, "op") == "sched" {
						cov["sched.replayed."+s(t, "kind")]++
						return len(sub(e, "steps")) >= 4
					}
					cov["sched."+s(e, "op")]++
				}
				return false
			}
			cfg, _ := t["cfg"].(map[string]any)
			cov["cap."+itoa(n(cfg, "cap"))]++
			if n(cfg, "delayUs") > 0 {
				cov["consumer.delayed"]++
			}
			nt := false
			for _, e := range evs(t) {
				op := s(e, "op")
				if s(t, "drv") == "maxsat" {
					op = "maxsat-" + op
				}
				cov["op."+op]++
				if l := sub(e, "stream"); len(l) >= 2 {
					cov["stream.improvements"]++
					if len(l) >= 3 {
						cov["stream.improvements>=3"]++
					}
					nt = true
				}
				if l, _ := e["models"].([]any); len(l) >= 2 {
					cov["stream.models"]++
					nt = true
				}
			}
			return nt
		},
		Rule:    "cases: optimisation problems (Optimal with a result channel), enumeration problems (Enumerate with a model channel) and WCNF problems (maxsat forwarding goroutine) x consumer behaviours (channel capacity 0..4, delays of 0 / 50 / 300 microseconds between receives); the consumer-side sequence, the close event and the returned value are validated; non-trivial = at least two results delivered",
		Require: []string{"op.optimal", "op.enum", "op.maxsat-optimal", "cap.0", "cap.1", "cap.4", "consumer.delayed", "stream.improvements", "stream.improvements>=3", "stream.models", "sched.replayed.optimal", "sched.replayed.enum", "sched.replayed.maxsat"},
	})
}
