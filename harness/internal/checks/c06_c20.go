package checks

import (
	"verifharness/internal/core"
	"verifharness/internal/gen"
)

func init() {
	// C06 — RUP certificates. Semantic tier: APITrace (every line entailed + RUP chain + refutation).
	// Local tier: CertTrace (no model sets: RUP chain by unit propagation in TLA+, models evaluated).
	register(&core.Check{
		ID:          "C06",
		Amplify:     amplifyAPI,
		Designs:     cdclDesigns(true),
		TraceModule: "APITrace",
		Budget:      0,
		Cases: func(env *core.Env) []core.Case {
			res := cnfCases(env, env.Pick(1500, 15000), func(i int) bool { return i%4 != 3 })
			for _, c := range res {
				c["wbStrict"] = true
			}
			r := env.Rand
			// near-threshold instances with more conflicts, still in the semantic tier
			for i := 0; i < env.Pick(300, 4000); i++ {
				nv := 6 + r.Intn(4)
				clauses := gen.RandKSAT(r, nv, int(4.2*float64(nv))+r.Intn(4), 3)
				cfg := gen.Cfg(true, []int{0, 2, 4}[r.Intn(3)], []int{0, 3}[r.Intn(2)], false, false, true)
				c := gen.APICase("slicenb", nv, true, gen.ClauseCtors(clauses), false, nil, cfg, []gen.M{gen.Op("solve")})
				c["wbStrict"] = true
				res = append(res, c)
			}
			// local tier
			for i := 0; i < env.Pick(160, 1500); i++ {
				nv := 12 + r.Intn(env.Pick(24, 49))
				clauses := gen.RandKSAT(r, nv, int(4.26*float64(nv)), 3)
				cfg := gen.Cfg(true, []int{0, 4, 8}[r.Intn(3)], []int{0, 5}[r.Intn(2)], false, false, false)
				c := gen.APICase("slicenb", nv, true, gen.ClauseCtors(clauses), false, nil, cfg, []gen.M{gen.Op("solve")})
				c["tm"] = "CertTrace"
				res = append(res, c)
			}
			return res
		},
		Cover: func(t core.Case, cov map[string]int) bool {
			coverAPI(t, cov)
			if s(t, "tm") == "CertTrace" {
				cov["tier.local"]++
			}
			for _, e := range evs(t) {
				if l, _ := e["cert"].([]any); len(l) > 0 {
					if s(e, "status") == "UNSAT" {
						cov["cert.unsat-with-lines"]++
					} else {
						cov["cert.sat-with-lines"]++
					}
					return true
				}
			}
			return false
		},
		Rule:    "cases: CNF formulas x {certificate to channel, off} x {learned-clause limit default / forced small} x {restart knob}; semantic tier n<=9: every emitted line entailed (TLC, model sets) and the sequence a RUP derivation ending in a refutation on Unsat (unit propagation written in TLA+, no code shared with the solver or with package explain); local tier n=20..60: RUP chain and refutation only, Sat models evaluated clause by clause; non-trivial = the certificate has at least one line",
		Require: []string{"cfg.cert", "cert.unsat-with-lines", "cert.sat-with-lines", "tier.local", "cfg.reduceAt", "wb.restart", "wb.delete"},
	})

	// C20 — result streams (free-running layer: consumer capacity and delays)
	register(&core.Check{
		ID:          "C20",
		TraceModule: "APITrace",
		Cases: func(env *core.Env) []core.Case {
			r := env.Rand
			var res []core.Case
			for i := 0; i < env.Pick(1500, 15000); i++ {
				capacity := r.Intn(5)
				delay := []int{0, 0, 50, 300}[r.Intn(4)]
				switch r.Intn(3) {
				case 0: // optimisation stream
					front, n, strict, cons, obj := coveringProblem(r)
					if r.Intn(3) == 0 { // larger problems: longer chains of improving models
						front, n, strict, cons, obj = coveringProblemN(r, 8+r.Intn(3))
					} else if r.Intn(3) == 0 {
						front, n, strict, cons, obj = starsProblem(r)
					}
					cfg := gen.Cfg(false, 0, 0, false, false, false)
					cfg["cap"], cfg["delayUs"] = capacity, delay
					res = append(res, gen.APICase(front, n, strict, cons, true, obj, cfg, []gen.M{gen.OpChan("optimal", true)}))
				case 1: // enumeration stream
					n := 2 + r.Intn(5)
					clauses := gen.RandCNF(r, n, 1+r.Intn(n), 3, false)
					cfg := gen.Cfg(false, 0, 0, false, false, false)
					cfg["cap"], cfg["delayUs"] = capacity, delay
					res = append(res, gen.APICase("slicenb", n, true, gen.ClauseCtors(clauses), false, nil, cfg, []gen.M{gen.OpChan("enum", true)}))
				default: // MaxSAT stream through the forwarding goroutine
					n := 2 + r.Intn(4)
					var cons []gen.M
					for j := 0; j < 2+r.Intn(5); j++ {
						cons = append(cons, msCons(r, n, true))
					}
					c := wcnfCase(r, n, cons)
					c["ev"] = []gen.M{gen.OpChan("optimal", true)}
					c["tm"] = "MaxSatTrace"
					c["cfg"].(gen.M)["cap"] = capacity
					c["cfg"].(gen.M)["delayUs"] = delay
					res = append(res, c)
				}
			}
			return res
		},
		Cover: func(t core.Case, cov map[string]int) bool {
			cfg, _ := t["cfg"].(map[string]any)
			cov["cap."+itoa(n(cfg, "cap"))]++
			if n(cfg, "delayUs") > 0 {
				cov["consumer.delayed"]++
			}
			nt := false
			for _, e := range evs(t) {
				op := s(e, "op")
				if s(t, "drv") == "maxsat" {
					op = "maxsat-" + op
				}
				cov["op."+op]++
				if l := sub(e, "stream"); len(l) >= 2 {
					cov["stream.improvements"]++
					if len(l) >= 3 {
						cov["stream.improvements>=3"]++
					}
					nt = true
				}
				if l, _ := e["models"].([]any); len(l) >= 2 {
					cov["stream.models"]++
					nt = true
				}
			}
			return nt
		},
		Rule:    "cases: optimisation problems (Optimal with a result channel), enumeration problems (Enumerate with a model channel) and WCNF problems (maxsat forwarding goroutine) x consumer behaviours (channel capacity 0..4, delays of 0 / 50 / 300 microseconds between receives); the consumer-side sequence, the close event and the returned value are validated; non-trivial = at least two results delivered",
		Require: []string{"op.optimal", "op.enum", "op.maxsat-optimal", "cap.0", "cap.1", "cap.4", "consumer.delayed", "stream.improvements", "stream.improvements>=3", "stream.models"},
	})
}
