package checks

import (
	"verifharness/internal/core"
)

func firstEvent(tr core.Case, op string) map[string]any {
	for _, e := range evs(tr) {
		if s(e, "op") == op {
			return e
		}
	}
	return nil
}

// Corruptions lists, per property, single-field corruptions of recorded traces that the trace
// specification of the property must reject (binding self-test, `vcheck selftest`).
var Corruptions = map[string][]core.Corruption{
	"C01": {
		{Name: "flip-verdict", Apply: func(tr core.Case) bool {
			e := firstEvent(tr, "solve")
			if e == nil {
				return false
			}
			if s(e, "status") == "SAT" {
				e["status"], e["model"] = "UNSAT", []bool{}
			} else {
				return false
			}
			return true
		}},
		{Name: "flip-model-bit", Apply: func(tr core.Case) bool {
			e := firstEvent(tr, "solve")
			if e == nil || s(e, "status") != "SAT" {
				return false
			}
			m, _ := e["model"].([]any)
			// only decisive when the flipped assignment is not a model: use problems with a unit clause on variable 1
			cons := sub(tr, "cons")
			unit := 0
			for _, c := range cons {
				if l, _ := c["lits"].([]any); len(l) == 1 {
					unit = int(l[0].(float64))
				}
			}
			if unit == 0 || len(m) == 0 {
				return false
			}
			v := unit
			if v < 0 {
				v = -v
			}
			m[v-1] = !(m[v-1].(bool))
			return true
		}},
		{Name: "shorten-model", Apply: func(tr core.Case) bool {
			e := firstEvent(tr, "solve")
			if e == nil || s(e, "status") != "SAT" {
				return false
			}
			m, _ := e["model"].([]any)
			if len(m) == 0 {
				return false
			}
			e["model"] = m[:len(m)-1]
			return true
		}},
		{Name: "drop-literal-of-learned-clause", Partial: true, Apply: func(tr core.Case) bool {
			e := firstEvent(tr, "solve")
			if e == nil {
				return false
			}
			tr["wbStrict"] = true
			for _, w := range sub(e, "wb") {
				if s(w, "k") == "learn" {
					if l, _ := w["lits"].([]any); len(l) >= 2 {
						w["lits"] = l[:1]
						ws, _ := w["w"].([]any)
						w["w"] = ws[:1]
						return true
					}
				}
			}
			return false
		}},
	},
	"C05": {
		{Name: "count-plus-one", Apply: func(tr core.Case) bool {
			e := firstEvent(tr, "count")
			if e == nil {
				return false
			}
			e["k"] = n(e, "k") + 1
			return true
		}},
		{Name: "duplicate-a-model", Apply: func(tr core.Case) bool {
			e := firstEvent(tr, "enum")
			if e == nil || !b(e, "chan") {
				return false
			}
			ms, _ := e["models"].([]any)
			if len(ms) == 0 {
				return false
			}
			e["models"] = append(ms, ms[0])
			return true
		}},
		{Name: "channel-not-closed", Apply: func(tr core.Case) bool {
			e := firstEvent(tr, "enum")
			if e == nil || !b(e, "chan") {
				return false
			}
			e["closed"] = false
			return true
		}},
	},
	"C03": {
		{Name: "cost-plus-one", Apply: func(tr core.Case) bool {
			e := firstEvent(tr, "optimal")
			if e == nil || s(e, "status") != "SAT" {
				return false
			}
			e["cost"] = n(e, "cost") + 1
			return true
		}},
		{Name: "minimize-minus-one", Apply: func(tr core.Case) bool {
			e := firstEvent(tr, "minimize")
			if e == nil || n(e, "cost") <= 0 {
				return false
			}
			e["cost"] = n(e, "cost") - 1
			return true
		}},
	},
	"C06": {
		{Name: "drop-literal-of-certificate-line", Apply: func(tr core.Case) bool {
			e := firstEvent(tr, "solve")
			if e == nil {
				return false
			}
			lines, _ := e["cert"].([]any)
			for i, l := range lines {
				if ll, _ := l.([]any); len(ll) >= 2 {
					lines[i] = ll[1:]
					return s(tr, "tm") != "CertTrace" // the semantic tier decides entailment of the shortened line
				}
			}
			return false
		}},
		{Name: "remove-the-refutation", Partial: true, Apply: func(tr core.Case) bool {
			e := firstEvent(tr, "solve")
			if e == nil || s(e, "status") != "UNSAT" {
				return false
			}
			lines, _ := e["cert"].([]any)
			if len(lines) < 2 {
				return false
			}
			e["cert"] = lines[:1]
			return true
		}},
	},
	"C20": {
		{Name: "swap-two-streamed-results", Apply: func(tr core.Case) bool {
			e := firstEvent(tr, "optimal")
			if e == nil {
				return false
			}
			st, _ := e["stream"].([]any)
			if len(st) < 2 {
				return false
			}
			st[0], st[1] = st[1], st[0]
			return true
		}},
		{Name: "stream-not-closed", Apply: func(tr core.Case) bool {
			e := firstEvent(tr, "optimal")
			if e == nil || !b(e, "chan") {
				return false
			}
			e["closed"] = false
			return true
		}},
	},
}
