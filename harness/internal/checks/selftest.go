package checks

import (
	"verifharness/internal/core"
)

func flagOf(tr core.Case, f string) bool {
	fl, _ := tr["flags"].([]any)
	for _, x := range fl {
		if x == f {
			return true
		}
	}
	return false
}

func firstEvent(tr core.Case, op string) map[string]any {
	for _, e := range evs(tr) {
		if s(e, "op") == op {
			return e
		}
	}
	return nil
}

// Corruptions lists, per property, single-field corruptions of recorded traces that the trace
// specification of the property must reject (binding self-test, `vcheck selftest`).
var Corruptions = map[string][]core.Corruption{
	"C01": {
		{Name: "flip-verdict", Apply: func(tr core.Case) bool {
			e := firstEvent(tr, "solve")
			if e == nil {
				return false
			}
			if s(e, "status") == "SAT" {
				e["status"], e["model"] = "UNSAT", []bool{}
			} else {
				return false
			}
			return true
		}},
		{Name: "flip-model-bit", Apply: func(tr core.Case) bool {
			e := firstEvent(tr, "solve")
			if e == nil || s(e, "status") != "SAT" {
				return false
			}
			m, _ := e["model"].([]any)
			// only decisive when the flipped assignment is not a model: use problems with a unit clause on variable 1
			cons := sub(tr, "cons")
			unit := 0
			for _, c := range cons {
				if l, _ := c["lits"].([]any); len(l) == 1 {
					unit = int(l[0].(float64))
				}
			}
			if unit == 0 || len(m) == 0 {
				return false
			}
			v := unit
			if v < 0 {
				v = -v
			}
			m[v-1] = !(m[v-1].(bool))
			return true
		}},
		{Name: "shorten-model", Apply: func(tr core.Case) bool {
			e := firstEvent(tr, "solve")
			if e == nil || s(e, "status") != "SAT" {
				return false
			}
			m, _ := e["model"].([]any)
			if len(m) == 0 {
				return false
			}
			e["model"] = m[:len(m)-1]
			return true
		}},
		{Name: "drop-literal-of-learned-clause", Partial: true, Apply: func(tr core.Case) bool {
			e := firstEvent(tr, "solve")
			if e == nil {
				return false
			}
			tr["wbStrict"] = true
			for _, w := range sub(e, "wb") {
				if s(w, "k") == "learn" {
					if l, _ := w["lits"].([]any); len(l) >= 2 {
						w["lits"] = l[:1]
						ws, _ := w["w"].([]any)
						w["w"] = ws[:1]
						return true
					}
				}
			}
			return false
		}},
	},
	"C05": {
		{Name: "count-plus-one", Apply: func(tr core.Case) bool {
			e := firstEvent(tr, "count")
			if e == nil {
				return false
			}
			e["k"] = n(e, "k") + 1
			return true
		}},
		{Name: "duplicate-a-model", Apply: func(tr core.Case) bool {
			e := firstEvent(tr, "enum")
			if e == nil || !b(e, "chan") {
				return false
			}
			ms, _ := e["models"].([]any)
			if len(ms) == 0 {
				return false
			}
			e["models"] = append(ms, ms[0])
			return true
		}},
		{Name: "channel-not-closed", Apply: func(tr core.Case) bool {
			e := firstEvent(tr, "enum")
			if e == nil || !b(e, "chan") {
				return false
			}
			e["closed"] = false
			return true
		}},
	},
	"C03": {
		{Name: "cost-plus-one", Apply: func(tr core.Case) bool {
			e := firstEvent(tr, "optimal")
			if e == nil || s(e, "status") != "SAT" {
				return false
			}
			e["cost"] = n(e, "cost") + 1
			return true
		}},
		{Name: "minimize-minus-one", Apply: func(tr core.Case) bool {
			e := firstEvent(tr, "minimize")
			if e == nil || n(e, "cost") <= 0 {
				return false
			}
			e["cost"] = n(e, "cost") - 1
			return true
		}},
	},
	"C06": {
		{Name: "drop-literal-of-certificate-line", Apply: func(tr core.Case) bool {
			e := firstEvent(tr, "solve")
			if e == nil {
				return false
			}
			lines, _ := e["cert"].([]any)
			for i, l := range lines {
				if ll, _ := l.([]any); len(ll) >= 2 {
					lines[i] = ll[1:]
					return s(tr, "tm") != "CertTrace" // the semantic tier decides entailment of the shortened line
				}
			}
			return false
		}},
		{Name: "remove-the-refutation", Partial: true, Apply: func(tr core.Case) bool {
			e := firstEvent(tr, "solve")
			if e == nil || s(e, "status") != "UNSAT" {
				return false
			}
			lines, _ := e["cert"].([]any)
			if len(lines) < 2 {
				return false
			}
			e["cert"] = lines[:1]
			return true
		}},
	},
	"C02": {
		{Name: "flip-verdict", Apply: func(tr core.Case) bool {
			e := firstEvent(tr, "solve")
			if e == nil || s(e, "status") != "SAT" {
				return false
			}
			e["status"], e["model"] = "UNSAT", []bool{}
			return true
		}},
	},
	"C04": {
		{Name: "cost-plus-one", Apply: func(tr core.Case) bool {
			for _, op := range []string{"solve", "optimal"} {
				if e := firstEvent(tr, op); e != nil && n(e, "cost") >= 0 && (op == "solve" && !b(e, "isNil") || op == "optimal" && s(e, "status") == "SAT") {
					e["cost"] = n(e, "cost") + 1
					return true
				}
			}
			return false
		}},
	},
	"C07": {
		{Name: "drop-a-clause-of-the-mus", Apply: func(tr core.Case) bool {
			e := firstEvent(tr, "mus")
			if e == nil || b(e, "err") {
				return false
			}
			res, _ := e["res"].(map[string]any)
			cl, _ := res["clauses"].([]any)
			if len(cl) < 1 {
				return false
			}
			res["clauses"], res["nb"] = cl[1:], len(cl)-1
			return true
		}},
		{Name: "claim-satisfiable", Apply: func(tr core.Case) bool {
			e := firstEvent(tr, "mus")
			if e == nil || b(e, "err") {
				return false
			}
			e["err"] = true
			return true
		}},
	},
	"C08": {
		{Name: "flip-the-checker-answer", Partial: true, Apply: func(tr core.Case) bool {
			e := firstEvent(tr, "check")
			if e == nil || b(e, "err") {
				return false
			}
			e["valid"], e["valid2"] = !b(e, "valid"), !b(e, "valid")
			return true
		}},
	},
	"C09": {
		{Name: "flip-last-verdict", Apply: func(tr core.Case) bool {
			var last map[string]any
			for _, e := range evs(tr) {
				if s(e, "op") == "solve" {
					last = e
				}
			}
			if last == nil || s(last, "status") != "SAT" {
				return false
			}
			last["status"], last["model"] = "UNSAT", []bool{}
			return true
		}},
	},
	"C10": {
		{Name: "flip-last-verdict", Apply: func(tr core.Case) bool {
			var last map[string]any
			for _, e := range evs(tr) {
				if s(e, "op") == "solve" {
					last = e
				}
			}
			if last == nil || s(last, "status") != "SAT" {
				return false
			}
			last["status"], last["model"] = "UNSAT", []bool{}
			return true
		}},
	},
	"C11": {
		{Name: "claim-unsatisfiable", Apply: func(tr core.Case) bool {
			e := firstEvent(tr, "solve")
			if e == nil || b(e, "isNil") {
				return false
			}
			e["isNil"], e["dom"], e["val"] = true, []int{}, []bool{}
			return true
		}},
	},
	"C12": {
		{Name: "drop-an-exported-clause", Partial: true, Apply: func(tr core.Case) bool {
			e := firstEvent(tr, "dimacs")
			if e == nil {
				return false
			}
			cl, _ := e["clauses"].([]any)
			if len(cl) < 1 {
				return false
			}
			e["clauses"], e["hdrClauses"] = cl[1:], n(e, "hdrClauses")-1
			return true
		}},
	},
	"C13": {
		{Name: "claim-parse-error", Apply: func(tr core.Case) bool {
			for _, op := range []string{"parse", "eparse"} {
				if e := firstEvent(tr, op); e != nil && !b(e, "err") {
					e["err"] = true
					return true
				}
			}
			return false
		}},
		{Name: "one-more-variable", Apply: func(tr core.Case) bool {
			e := firstEvent(tr, "eparse")
			if e == nil || b(e, "err") {
				return false
			}
			d, _ := e["d"].(map[string]any)
			d["n"] = n(d, "n") + 1
			return true
		}},
	},
	"C14": {
		{Name: "flip-verdict", Apply: func(tr core.Case) bool {
			e := firstEvent(tr, "solve")
			if e == nil || s(e, "status") != "SAT" {
				return false
			}
			e["status"], e["model"] = "UNSAT", []bool{}
			return true
		}},
	},
	"C15": {
		{Name: "replace-the-constraints-by-a-fact", Partial: true, Apply: func(tr core.Case) bool {
			e := firstEvent(tr, "amo")
			if e == nil {
				return false
			}
			after, _ := e["after"].(map[string]any)
			cons, _ := after["cons"].([]any)
			if len(cons) < 1 || s(after, "status") == "UNSAT" {
				return false
			}
			// every constraint replaced by a unit fact on the first literal of the first one, negated twice over:
			// the dump then has a different model set unless the problem had none
			first, _ := cons[0].(map[string]any)
			lits, _ := first["lits"].([]any)
			if len(lits) == 0 {
				return false
			}
			after["cons"] = []any{}
			after["units"] = []any{lits[0]}
			return true
		}},
	},
	"C18": {
		{Name: "claim-not-accepted-by-parser", Apply: func(tr core.Case) bool {
			for _, op := range []string{"print", "eprint"} {
				if e := firstEvent(tr, op); e != nil && !b(e, "reErr") && !b(e, "panic") {
					e["reErr"] = true
					return true
				}
			}
			return false
		}},
	},
	"C17": {
		{Name: "flip-accept", Apply: func(tr core.Case) bool {
			e := firstEvent(tr, "parse")
			if e == nil || b(e, "panic") {
				return false
			}
			e["err"] = !b(e, "err")
			return true
		}},
	},
	"C19": {
		{Name: "exit-zero-on-error", Apply: func(tr core.Case) bool {
			e := firstEvent(tr, "run")
			if e == nil || s(tr, "kind") != "bad" {
				return false
			}
			e["exit"] = 0
			return true
		}},
		{Name: "count-plus-one", Apply: func(tr core.Case) bool {
			e := firstEvent(tr, "run")
			if e == nil || n(e, "count") < 0 || s(tr, "kind") == "bad" || s(tr, "kind") == "wcnf" || s(tr, "kind") == "bf" || !flagOf(tr, "-count") || flagOf(tr, "-mus") {
				return false
			}
			e["count"] = n(e, "count") + 1
			return true
		}},
		{Name: "flip-answer-line", Apply: func(tr core.Case) bool {
			e := firstEvent(tr, "run")
			if e == nil || s(tr, "kind") != "cnf" || flagOf(tr, "-count") || flagOf(tr, "-mus") || s(e, "s") != "SATISFIABLE" {
				return false
			}
			e["s"], e["hasV"], e["v"] = "UNSATISFIABLE", false, []int{}
			return true
		}},
	},
	"C20": {
		{Name: "swap-two-streamed-results", Apply: func(tr core.Case) bool {
			e := firstEvent(tr, "optimal")
			if e == nil {
				return false
			}
			st, _ := e["stream"].([]any)
			if len(st) < 2 {
				return false
			}
			st[0], st[1] = st[1], st[0]
			return true
		}},
		{Name: "stream-not-closed", Apply: func(tr core.Case) bool {
			e := firstEvent(tr, "optimal")
			if e == nil || !b(e, "chan") {
				return false
			}
			e["closed"] = false
			return true
		}},
	},
}
