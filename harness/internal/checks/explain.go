package checks

import (
	"math/rand"
	"time"

	"verifharness/internal/core"
	"verifharness/internal/gen"
)

// unsatBiasedCNF: small CNF problems, mostly unsatisfiable, with repeated clauses, unit conflicts,
// several (overlapping or disjoint) cores.
func unsatBiasedCNF(r *rand.Rand, maxN int) (int, [][]int) {
	n := 1 + r.Intn(maxN)
	var clauses [][]int
	m := 2 + r.Intn(3*n+2)
	for i := 0; i < m; i++ {
		length := 1 + r.Intn(3)
		if r.Intn(3) > 0 {
			length = 1 + r.Intn(2)
		}
		clauses = append(clauses, gen.RandClause(r, n, length, true))
	}
	if r.Intn(3) == 0 && len(clauses) > 0 { // repeated clause
		clauses = append(clauses, append([]int{}, clauses[r.Intn(len(clauses))]...))
	}
	if r.Intn(3) == 0 { // trivially conflicting units
		v := 1 + r.Intn(n)
		clauses = append(clauses, []int{v}, []int{-v})
	}
	if r.Intn(4) == 0 { // a second, disjoint core over fresh variables
		a, b := n+1, n+2
		n += 2
		clauses = append(clauses, []int{a, b}, []int{-a, b}, []int{a, -b}, []int{-a, -b})
	}
	return n, gen.Shuffle(r, clauses)
}

func clauseList(v any) [][]int {
	res := [][]int{}
	l, _ := v.([]any)
	for _, c := range l {
		res = append(res, append([]int{}, toInts(c)...))
	}
	return res
}

// musCases: every clause sequence enumerated by MUS.tla through the four MUS methods and UnsatSubset.
func musCases(env *core.Env, emitted []core.Case) []core.Case {
	var res []core.Case
	for _, e := range emitted {
		ev := []gen.M{{"op": "mus", "method": "MUS"}, {"op": "mus", "method": "MUSDeletion"}, {"op": "mus", "method": "MUSInsertion"}, {"op": "mus", "method": "MUSMaxSat"}, {"op": "subset"}}
		res = append(res, gen.M{"drv": "explain", "n": int(e["n"].(float64)), "clauses": clauseList(e["F"]), "ev": ev})
	}
	return res
}

// rupCases: every (problem, certificate) pair enumerated by RUPCheck.tla through both entry points.
func rupCases(env *core.Env, emitted []core.Case) []core.Case {
	var res []core.Case
	for i, e := range emitted {
		entry := "reader"
		if i%2 == 0 {
			entry = "chan"
		}
		ev := []gen.M{{"op": "check", "entry": entry, "src": "given", "cert": clauseList(e["cert"]), "mut": "none", "seed": 0}}
		res = append(res, gen.M{"drv": "explain", "n": int(e["n"].(float64)), "clauses": clauseList(e["F"]), "ev": ev})
	}
	return res
}

func init() {
	register(&core.Check{
		ID: "C07",
		Designs: []core.Design{
			{Name: "mus", Module: "MUS", Cfg: "MUS_quick.cfg", Tier: "quick", Workers: 8, XmxMB: 6000, Timeout: 10 * time.Minute, ToCases: musCases},
			{Name: "mus", Module: "MUS", Cfg: "MUS_thorough.cfg", Tier: "thorough", Workers: 16, XmxMB: 12000, Timeout: 30 * time.Minute, ToCases: musCases},
			{Name: "mus-unminimised", Module: "MUS", Cfg: "MUS_ascoded.cfg", Workers: 4, XmxMB: 4000, Timeout: 10 * time.Minute, ExpectViolation: "ResultIsMUS"},
			// the MUS methods keep one solver over changing assumptions: what it learns must not depend on them
			{Name: "cdcl-assumption-shortcut", Module: "CDCLAssume", Cfg: "CDCLAssume_shortcut.cfg", Workers: 4, XmxMB: 4000, Timeout: 10 * time.Minute, ExpectViolation: "LearnEntailed"},
			{Name: "cdcl-assumption-witness", Module: "CDCLAssume", Cfg: "CDCLAssume_witness.cfg", Workers: 4, XmxMB: 4000, Timeout: 10 * time.Minute},
		},
		TraceModule: "ExplainTrace",
		Amplify:     amplifyExplain,
		Budget:      0,
		Cases: func(env *core.Env) []core.Case {
			r := env.Rand
			var res []core.Case
			methods := []string{"MUS", "MUSDeletion", "MUSInsertion", "MUSMaxSat"}
			for i := 0; i < env.Pick(2400, 12000); i++ {
				n, clauses := unsatBiasedCNF(r, 5)
				if i%3 == 0 { // larger cores: 3-SAT above the threshold with implications and a fact
					n = 6 + r.Intn(2)
					clauses = gen.RandKSAT(r, n, int(4.6*float64(n))+r.Intn(n), 3)
					clauses = append(clauses, gen.RandKSAT(r, n, 1+r.Intn(4), 2)...)
					if r.Intn(3) > 0 {
						clauses = append(clauses, []int{gen.RandLit(r, n)})
					}
					clauses = gen.Shuffle(r, clauses)
				}
				if i%3 == 1 { // sparse mixes whose unsatisfiability hangs on a fact and its consequences: the
					// relaxed problem propagates them at the assumption level, deeper conflicts resolve through them
					n = 5 + r.Intn(4)
					clauses = [][]int{{gen.RandLit(r, n)}}
					if r.Intn(3) == 0 {
						clauses = append(clauses, []int{gen.RandLit(r, n)})
					}
					clauses = append(clauses, gen.RandKSAT(r, n, 2+r.Intn(3), 2)...)
					clauses = append(clauses, gen.RandKSAT(r, n, n+r.Intn(n), 3)...)
					for j := 0; j < 1+r.Intn(2); j++ { // a consequence of the fact
						clauses = append(clauses, []int{-clauses[0][0], gen.RandLit(r, n)})
					}
					clauses = gen.Shuffle(r, clauses)
				}
				big := i%5 == 2
				if big { // 10..13 variables, sparse: the solvers of the MUS methods have to decide several
					// times on top of the assumption level, conflicts at depth resolve through consequences of facts
					n = 10 + r.Intn(4)
					clauses = [][]int{{gen.RandLit(r, n)}}
					if r.Intn(2) == 0 {
						clauses = append(clauses, []int{gen.RandLit(r, n)})
					}
					clauses = append(clauses, gen.RandKSAT(r, n, 3+r.Intn(3), 2)...)
					clauses = append(clauses, gen.RandKSAT(r, n, int(3.2*float64(n))+r.Intn(n), 3)...)
					for j := 0; j < 2; j++ {
						clauses = append(clauses, []int{-clauses[0][0], gen.RandLit(r, n)})
					}
					clauses = gen.Shuffle(r, clauses)
				}
				if i%5 >= 3 && len(clauses) > 0 && n < 8 { // two overlapping cores: a clause, the same clause weakened by the
					// negation of a fact, and the fact (the fact is needed by one core only)
					u := n + 1
					n++
					for k := 0; k < 1+r.Intn(2); k++ {
						c := clauses[r.Intn(len(clauses))]
						weak := append(append([]int{}, c...), -u)
						clauses = append(clauses, weak)
					}
					clauses = append(clauses, []int{u})
					clauses = gen.Shuffle(r, clauses)
				}
				if i%7 == 0 && len(clauses) > 0 { // repeated / complementary literals inside a clause
					j := r.Intn(len(clauses))
					x := clauses[j][r.Intn(len(clauses[j]))]
					if r.Intn(4) == 0 {
						x = -x
					}
					clauses[j] = append(clauses[j], x)
				}
				var ev []gen.M
				for _, m := range methods {
					ev = append(ev, gen.M{"op": "mus", "method": m})
				}
				res = append(res, gen.M{"drv": "explain", "n": n, "clauses": clauses, "ev": ev, "wb": i%2 == 0 || big})
			}
			return res
		},
		Cover: func(t core.Case, cov map[string]int) bool {
			nt := false
			for _, e := range evs(t) {
				cov["op."+s(e, "op")]++
				for _, w := range sub(e, "wb") {
					cov["wb."+s(w, "k")]++
				}
				if s(e, "op") != "mus" {
					continue
				}
				cov["method."+s(e, "method")]++
				if b(e, "err") {
					cov["mus.error"]++
				} else {
					res, _ := e["res"].(map[string]any)
					in, _ := t["clauses"].([]any)
					if n(res, "nb") < len(in) {
						nt = true
						cov["mus.strict-subset"]++
					}
				}
			}
			return nt
		},
		Rule:    "cases: CNF problems n<=7, 2..17 clauses of length 1..3 (one fifth: 10..13 variables, sparse, facts with consequences, judged by the one-pass formulation Logic!FalsSets), mostly unsatisfiable (repeated clauses, conflicting units, a second disjoint core), clause order shuffled, each through MUS, MUSDeletion, MUSInsertion and MUSMaxSat on a problem built by explain.ParseCNF; non-trivial = the input is unsatisfiable and the MUS is a strict subset",
		Require: []string{"method.MUS", "method.MUSDeletion", "method.MUSInsertion", "method.MUSMaxSat", "mus.error", "mus.strict-subset"},
	})

	register(&core.Check{
		ID: "C08",
		Designs: []core.Design{
			{Name: "rupcheck", Module: "RUPCheck", Cfg: "RUPCheck_quick.cfg", Tier: "quick", Workers: 8, XmxMB: 6000, Timeout: 10 * time.Minute, ToCases: rupCases},
			{Name: "rupcheck", Module: "RUPCheck", Cfg: "RUPCheck_thorough.cfg", Tier: "thorough", Workers: 16, XmxMB: 12000, Timeout: 40 * time.Minute, ToCases: rupCases},
		},
		TraceModule: "ExplainTrace",
		Cases: func(env *core.Env) []core.Case {
			r := env.Rand
			var res []core.Case
			muts := []string{"none", "none", "drop", "flip", "remove", "swap"}
			for i := 0; i < env.Pick(1200, 15000); i++ {
				var n int
				var clauses [][]int
				if r.Intn(2) == 0 {
					n, clauses = unsatBiasedCNF(r, 5)
					if r.Intn(5) == 0 && len(clauses) > 0 { // a repeated literal inside a clause
						j := r.Intn(len(clauses))
						clauses[j] = append(clauses[j], clauses[j][r.Intn(len(clauses[j]))])
					}
				} else { // larger, near the threshold: real certificates with several lines
					n = 5 + r.Intn(4)
					clauses = gen.RandKSAT(r, n, int(4.5*float64(n)), 3)
				}
				entry := "reader"
				if r.Intn(2) == 0 {
					entry = "chan"
				}
				var ev []gen.M
				switch r.Intn(4) {
				case 0: // random clause sequence as certificate, lines may mention the facts of the problem
					var cert [][]int
					var facts []int
					for _, c := range clauses {
						if len(c) == 1 {
							facts = append(facts, c[0])
						}
					}
					dirty := r.Intn(3) == 0 // lines drawn with replacement: a literal twice, a literal and its negation
					for j := 0; j < 1+r.Intn(4); j++ {
						line := gen.RandClause(r, n, r.Intn(4), !dirty)
						if dirty {
							line = gen.RandClause(r, n, 1+r.Intn(4), false)
						}
						if len(facts) > 0 && r.Intn(2) == 0 {
							f := facts[r.Intn(len(facts))]
							if r.Intn(3) == 0 {
								f = -f
							}
							pos := r.Intn(len(line) + 1)
							line = append(line[:pos], append([]int{f}, line[pos:]...)...)
						}
						cert = append(cert, line)
					}
					if r.Intn(2) == 0 {
						cert = append(cert, []int{})
					}
					ev = []gen.M{{"op": "check", "entry": entry, "src": "given", "cert": cert, "mut": "none", "seed": 0}}
				case 1:
					ev = []gen.M{{"op": "subset"}}
				default:
					ev = []gen.M{{"op": "check", "entry": entry, "src": "solver", "cert": [][]int{}, "mut": muts[r.Intn(len(muts))], "seed": r.Intn(1 << 20)}}
				}
				if i%3 == 0 { // several uses of the same Problem value, a rejected certificate first: whatever a
					// check leaves behind in the problem shows in the next use
					bad := [][]int{gen.RandClause(r, n, 1+r.Intn(2), true)}
					if r.Intn(3) == 0 { // a degenerate first line (a variable in both polarities, a literal twice)
						v := 1 + r.Intn(n)
						bad = [][]int{gen.Shuffle(r, [][]int{{v}, {-v}, {gen.RandLit(r, n)}})[0]}
						bad[0] = append(bad[0], -bad[0][0])
						if r.Intn(2) == 0 {
							bad[0] = append(bad[0], gen.RandLit(r, n))
						}
					}
					if r.Intn(2) == 0 {
						bad = append(bad, []int{})
					}
					seq := []gen.M{{"op": "check", "entry": entry, "src": "given", "cert": bad, "mut": "none", "seed": 0}}
					for j := 0; j < 1+r.Intn(2); j++ {
						switch r.Intn(4) {
						case 0:
							seq = append(seq, gen.M{"op": "subset"})
						case 1:
							seq = append(seq, gen.M{"op": "mus", "method": []string{"MUS", "MUSInsertion", "MUSMaxSat"}[r.Intn(3)]})
						case 2:
							seq = append(seq, gen.M{"op": "check", "entry": entry, "src": "solver", "cert": [][]int{}, "mut": muts[r.Intn(len(muts))], "seed": r.Intn(1 << 20)})
						default:
							var cert [][]int
							for x := 0; x < 1+r.Intn(3); x++ {
								cert = append(cert, gen.RandClause(r, n, r.Intn(3), r.Intn(4) != 0))
							}
							cert = append(cert, []int{})
							seq = append(seq, gen.M{"op": "check", "entry": []string{"reader", "chan"}[r.Intn(2)], "src": "given", "cert": cert, "mut": "none", "seed": 0})
						}
					}
					ev = seq
				}
				res = append(res, gen.M{"drv": "explain", "n": n, "clauses": clauses, "ev": ev, "verbose": r.Intn(3) == 0})
			}
			return res
		},
		Cover: func(t core.Case, cov map[string]int) bool {
			nt := false
			if b(t, "verbose") {
				cov["options.verbose"]++
			}
			if len(evs(t)) >= 2 {
				cov["problem.reused"]++
			}
			for _, e := range evs(t) {
				op := s(e, "op")
				cov["op."+op]++
				if op == "check" {
					cov["entry."+s(e, "entry")]++
					cov["mut."+s(e, "mut")]++
					if b(e, "valid") {
						cov["check.valid"]++
					} else {
						cov["check.invalid"]++
					}
					if l, _ := e["cert"].([]any); len(l) >= 2 {
						nt = true
					}
				}
				if op == "subset" {
					if b(e, "err") {
						cov["subset.error"]++
					} else {
						cov["subset.ok"]++
						nt = true
					}
				}
			}
			return nt
		},
		Rule:    "cases: (CNF problem, certificate) pairs, n<=8, one third as sequences of 2..3 uses of one Problem value starting with a rejected certificate, Options.Verbose on in one third: genuine certificates of the real solver, the same with one literal dropped / flipped, one line removed, two lines swapped, and random clause sequences (with and without the empty clause), through Unsat(reader) and UnsatChan(chan), each twice in a row; UnsatSubset on random problems; non-trivial = certificate with at least two lines, or a successful subset extraction",
		Require: []string{"entry.reader", "entry.chan", "check.valid", "check.invalid", "mut.drop", "mut.flip", "mut.remove", "subset.ok", "subset.error", "options.verbose", "problem.reused"},
	})
}
