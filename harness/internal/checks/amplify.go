package checks

import (
	"fmt"
	"os"
	"strings"

	"verifharness/internal/core"
	"verifharness/internal/gen"
)

// parseWitness reads an assignment printed by TLC's ToString: <<TRUE, FALSE, ...>>.
func parseWitness(sv string) []bool {
	var res []bool
	for _, tok := range strings.FieldsFunc(sv, func(r rune) bool { return r == '<' || r == '>' || r == ',' || r == ' ' }) {
		switch tok {
		case "TRUE":
			res = append(res, true)
		case "FALSE":
			res = append(res, false)
		}
	}
	return res
}

func consOf(in core.Case) []gen.M {
	var res []gen.M
	l, _ := in["cons"].([]gen.M)
	if l != nil {
		for _, c := range l {
			res = append(res, deepCopy(c))
		}
		return res
	}
	if l2, ok := in["cons"].([]any); ok {
		for _, c := range l2 {
			if m, ok := c.(map[string]any); ok {
				res = append(res, deepCopy(m))
			}
		}
	}
	return res
}

func toInts(v any) []int {
	switch x := v.(type) {
	case []int:
		return x
	case []any:
		res := make([]int, len(x))
		for i, e := range x {
			f, _ := e.(float64)
			res[i] = int(f)
		}
		return res
	}
	return nil
}

// amplifyAPI: divergence-directed amplification for the api family.
//
//   - parse-stale: the parsed problem still mentions variables fixed at parse time. Whether that
//     matters depends on the polarity of the other literals of the stale clauses (the search tries
//     "false" first): follow-ups flip the polarity of subsets of the free variables, which leaves the
//     parse-time propagation untouched.
//   - parse-dump / learned-not-entailed with a witness assignment m (a model the parsed problem or a
//     learned constraint loses, or a non-model it gains): follow-up = the same input plus binary
//     clauses (l v z), (l v -z) for each literal l of m and a fresh variable z, which force m without
//     being simplified at parse time; the verdict of the follow-up is decided by m alone.
func amplifyAPI(env *core.Env, in core.Case, tr core.Case, why string) []core.Case {
	if in == nil || s(in, "drv") != "api" {
		return nil
	}
	in = deepCopy(in)
	n0 := 0
	switch v := in["n"].(type) {
	case float64:
		n0 = int(v)
	case int:
		n0 = v
	}
	var res []core.Case
	switch {
	case strings.HasPrefix(why, "parse-stale"):
		front := s(in, "front")
		if front != "slicenb" && front != "slice" && front != "dimacs" {
			return nil
		}
		fixed := map[int]bool{}
		for _, e := range evs(tr) {
			if s(e, "op") == "dump" {
				d, _ := e["d"].(map[string]any)
				for _, u := range toInts(d["units"]) {
					if u < 0 {
						u = -u
					}
					fixed[u] = true
				}
			}
		}
		// targeted variants: a clause of the parsed problem that still holds literals fixed FALSE is only
		// dangerous when those literals sit in the watched positions and the search falsifies the others.
		// For each such clause: the free variables are renamed so that its free literals are positive (the
		// search tries "false" first) and, in every input clause, the literals fixed false are moved to the
		// front. Neither step changes what parse-time propagation derives.
		unitSet := map[int]bool{}
		var dumpCons [][]int
		for _, e := range evs(tr) {
			if s(e, "op") == "dump" {
				d, _ := e["d"].(map[string]any)
				for _, u := range toInts(d["units"]) {
					unitSet[u] = true
				}
				if cl, ok := d["cons"].([]any); ok {
					for _, k := range cl {
						if km, ok := k.(map[string]any); ok {
							dumpCons = append(dumpCons, toInts(km["lits"]))
						}
					}
				}
			}
		}
		nTargeted := 0
		for _, dc := range dumpCons {
			nFalse := 0
			for _, l := range dc {
				if unitSet[-l] {
					nFalse++
				}
			}
			if os.Getenv("VERIF_DEBUG_AMP") != "" {
				fmt.Fprintf(os.Stderr, "AMP stale clause %v units %v nFalse %d\n", dc, unitSet, nFalse)
			}
			if nFalse == 0 || nTargeted >= 6 {
				continue
			}
			nTargeted++
			flip := map[int]bool{}
			for _, l := range dc {
				v := l
				if v < 0 {
					v = -v
				}
				if !fixed[v] && l < 0 {
					flip[v] = true
				}
			}
			c := deepCopy(in)
			cons := consOf(in)
			for _, k := range cons {
				lits := toInts(k["lits"])
				var front, back []int
				for _, l := range lits {
					v := l
					if v < 0 {
						v = -v
					}
					if flip[v] {
						l = -l
					}
					if unitSet[-l] {
						front = append(front, l)
					} else {
						back = append(back, l)
					}
				}
				k["lits"] = append(front, back...)
			}
			c["cons"] = cons
			res = append(res, c)
			// A second late fact next to the first: the clause D that derived the fixed variable u of a stale
			// literal (every other literal of D is false under the facts) is cloned with a fresh variable z in
			// the place of u (z is derived when u is), and the clause (-u, -z, y) with a fresh y is placed right
			// after the clause that kept the stale literal. If that region is not examined again, both watched
			// literals of the new clause are stale and y, which the formula forces, may come out false.
			for _, l := range dc {
				if !unitSet[-l] || s(in, "front") == "slice" {
					continue
				}
				u := -l
				orig := consOf(in)
				at, from := -1, -1
				for i, k := range orig {
					have := map[int]bool{}
					lits := toInts(k["lits"])
					for _, x := range lits {
						have[x] = true
					}
					all := true
					for _, x := range dc {
						if !have[x] {
							all = false
						}
					}
					if all && at < 0 {
						at = i
					}
					if have[u] && len(lits) >= 2 && from < 0 {
						reason := true
						for _, x := range lits {
							if x != u && !unitSet[-x] {
								reason = false
							}
						}
						if reason {
							from = i
						}
					}
				}
				if at < 0 || from < 0 || at == from {
					continue
				}
				z, y := n0+1, n0+2
				var clone []int
				for _, x := range toInts(orig[from]["lits"]) {
					if x == u {
						x = z
					}
					clone = append(clone, x)
				}
				var cons2 []gen.M
				for i, k := range orig {
					cons2 = append(cons2, k)
					if i == from {
						cons2 = append(cons2, gen.Clause(clone...))
					}
					if i == at {
						cons2 = append(cons2, gen.Clause(l, -z, y))
					}
				}
				// removing a clause during propagation moves the LAST clause of the list into its place: a few
				// satisfiable clauses over two more fresh variables keep the region of interest away from the end
				p, q := y+1, y+2
				cons2 = append(cons2, gen.Clause(p, q), gen.Clause(p, -q), gen.Clause(-p, q), gen.Clause(q, p))
				c2 := deepCopy(in)
				c2["cons"], c2["n"] = cons2, q
				res = append(res, c2)
				break
			}
		}
		for variant := 0; variant < 6; variant++ {
			flip := map[int]bool{}
			for v := 1; v <= n0; v++ {
				if !fixed[v] && (variant == 0 || env.Rand.Intn(2) == 0) {
					flip[v] = true
				}
			}
			c := deepCopy(in)
			for _, k := range consOf(c) {
				_ = k
			}
			cons := consOf(in)
			for _, k := range cons {
				lits := toInts(k["lits"])
				for i, l := range lits {
					v := l
					if v < 0 {
						v = -v
					}
					if flip[v] {
						lits[i] = -l
					}
				}
				k["lits"] = lits
			}
			c["cons"] = cons
			res = append(res, c)
		}
	case strings.HasPrefix(why, "fact-not-entailed:") && b(in, "hasObj"):
		// a literal was asserted at the top level during an optimisation although a model m of everything
		// given so far (bounds included) falsifies it: m is lost, which only shows in the final answer when
		// no other model is as good. Follow-ups: the same problem with the cost bounded from below by the
		// cost of m (m becomes optimal), and with the weights of the cost function permuted.
		m := parseWitness(why[strings.Index(why, ":")+1:])
		o, _ := in["obj"].(map[string]any)
		if o == nil {
			if om, ok := in["obj"].(gen.M); ok {
				o = om
			}
		}
		ol, ow := toInts(o["lits"]), toInts(o["w"])
		if len(m) < n0 || len(ol) == 0 || len(ol) != len(ow) {
			return nil
		}
		cost := 0
		for i, l := range ol {
			v := l
			if v < 0 {
				v = -v
			}
			if v > len(m) {
				return nil
			}
			if m[v-1] == (l > 0) {
				cost += ow[i]
			}
		}
		c := deepCopy(in)
		c["cons"] = append(consOf(in), gen.Ctor("gteq", append([]int{}, ol...), append([]int{}, ow...), cost))
		res = append(res, c)
		for k := 0; k < 8; k++ {
			c2 := deepCopy(in)
			w2 := append([]int{}, ow...)
			env.Rand.Shuffle(len(w2), func(i, j int) { w2[i], w2[j] = w2[j], w2[i] })
			c2["obj"] = gen.M{"lits": append([]int{}, ol...), "w": w2}
			if k%2 == 1 {
				c2["cons"] = append(consOf(c2), gen.Ctor("gteq", append([]int{}, ol...), w2, cost))
			}
			res = append(res, c2)
		}
	case strings.HasPrefix(why, "parse-dump:") || strings.HasPrefix(why, "learned-not-entailed:") || strings.HasPrefix(why, "fact-not-entailed:"):
		m := parseWitness(why[strings.Index(why, ":")+1:])
		if len(m) == 0 || len(m) < n0 {
			return nil
		}
		z := len(m) + 1
		cons := consOf(in)
		for v, val := range m {
			l := v + 1
			if !val {
				l = -l
			}
			cons = append(cons, gen.Clause(l, z), gen.Clause(l, -z))
		}
		c := deepCopy(in)
		c["cons"] = cons
		c["n"] = z
		if s(in, "front") == "slice" {
			c["front"] = "slicenb"
		}
		res = append(res, c)
	}
	return res
}

// amplifyExplain: a solver created by a MUS method learned a clause that does not follow from its
// clauses alone (it depends on the assumptions in force). Whether that changes the extracted MUS
// depends on which clause is relaxed in a later call of the same solver, i.e. on the order of the
// clauses: follow-ups are the same multiset of clauses in other orders (rotations, reversal, random
// permutations, literals shuffled), each through the four methods on one shared Problem.
func amplifyExplain(env *core.Env, in core.Case, tr core.Case, why string) []core.Case {
	if in == nil || s(in, "drv") != "explain" || !strings.HasPrefix(why, "learned-clause-not-rup") {
		return nil
	}
	var clauses [][]int
	switch l := in["clauses"].(type) {
	case [][]int:
		clauses = l
	default:
		clauses = clauseList(in["clauses"])
	}
	if len(clauses) < 2 {
		return nil
	}
	cp := func(cl [][]int) [][]int {
		res := make([][]int, len(cl))
		for i, c := range cl {
			res[i] = append([]int{}, c...)
		}
		return res
	}
	var res []core.Case
	add := func(cl [][]int) {
		var ev []gen.M
		for _, m := range []string{"MUS", "MUSDeletion", "MUSInsertion", "MUSMaxSat"} {
			ev = append(ev, gen.M{"op": "mus", "method": m})
		}
		res = append(res, gen.M{"drv": "explain", "n": in["n"], "clauses": cl, "ev": ev, "wb": false})
	}
	for k := 1; k < len(clauses) && k <= 12; k++ {
		rot := cp(clauses)
		rot = append(rot[k:], rot[:k]...)
		add(rot)
	}
	rev := cp(clauses)
	for i, j := 0, len(rev)-1; i < j; i, j = i+1, j-1 {
		rev[i], rev[j] = rev[j], rev[i]
	}
	add(rev)
	r := env.Rand
	for k := 0; k < 90; k++ {
		p := cp(clauses)
		r.Shuffle(len(p), func(i, j int) { p[i], p[j] = p[j], p[i] })
		if k%2 == 1 {
			for _, c := range p {
				r.Shuffle(len(c), func(i, j int) { c[i], c[j] = c[j], c[i] })
			}
		}
		add(p)
	}
	return res
}
