package checks

import (
	"verifharness/internal/core"
)

// mechAPI projects an executed api trace onto the record SearchTrace.tla reads: the problem the solver
// was built on (the dump of the parsed problem), the reply of Solve and the hook events of that call.
// Eligible: a history that is exactly one Solve, or rounds of Assume + Solve, on a problem that is not decided at parse time, default
// strategy (no cutting planes), complete event list, no assumption / append / enumeration events.
// Nothing is computed here: fields are selected.
func mechAPI(t core.Case) core.Case {
	if s(t, "drv") != "api" {
		return nil
	}
	cfg, _ := t["cfg"].(map[string]any)
	if cfg == nil || !b(cfg, "wb") || b(cfg, "cp") || b(cfg, "amo") {
		return nil
	}
	es := evs(t)
	if len(es) < 2 || s(es[0], "op") != "dump" {
		return nil
	}
	d, _ := es[0]["d"].(map[string]any)
	if d == nil || s(d, "status") == "UNSAT" {
		return nil
	}
	// either exactly one Solve, or rounds of Assume + Solve
	rounds := len(es) > 2
	var wb []any
	sts := []string{}
	st := ""
	for i, e := range es[1:] {
		switch s(e, "op") {
		case "assume":
			if !rounds || i%2 != 0 {
				return nil
			}
		case "solve":
			if rounds && i%2 != 1 {
				return nil
			}
			st = s(e, "status")
			if st != "SAT" && st != "UNSAT" {
				return nil
			}
			sts = append(sts, st)
			w, _ := e["wb"].([]any)
			wb = append(wb, w...)
		default:
			return nil
		}
	}
	if !rounds {
		sts = []string{}
	}
	if len(wb) == 0 || len(wb) >= 20000 { // nothing recorded / the recorder's limit was reached
		return nil
	}
	for _, e := range wb {
		em, _ := e.(map[string]any)
		switch s(em, "k") {
		case "assign", "prop", "conflict", "learn", "learn-empty", "backtrack", "restart", "reduce", "delete", "unsat", "solve-end":
		case "assume":
			if !rounds {
				return nil
			}
		default:
			return nil
		}
	}
	if last, _ := wb[len(wb)-1].(map[string]any); !rounds && s(last, "k") != "solve-end" {
		return nil
	}
	return core.Case{"id": t["id"], "n": d["n"], "units": d["units"], "cons": d["cons"], "status": st, "sts": sts, "ev": wb}
}
