package checks

import (
	"math/rand"
	"time"

	"verifharness/internal/core"
	"verifharness/internal/gen"
)

// amoRichCNF: several pairwise at-most-one groups (complete or not) plus a few longer clauses.
func amoRichCNF(r *rand.Rand, nv int) [][]int {
	var clauses [][]int
	for g := 0; g < 2+r.Intn(2); g++ {
		k := 3 + r.Intn(min(nv, 5)-2)
		lits := gen.DistinctLits(r, nv, k)
		if r.Intn(3) > 0 {
			for j := range lits {
				if lits[j] > 0 {
					lits[j] = -lits[j]
				}
			}
		}
		for a := 0; a < len(lits); a++ {
			for c := a + 1; c < len(lits); c++ {
				if r.Intn(8) == 0 {
					continue
				}
				clauses = append(clauses, []int{lits[a], lits[c]})
			}
		}
	}
	for j := 0; j < r.Intn(4); j++ {
		clauses = append(clauses, gen.RandClause(r, nv, 2+r.Intn(2), true))
	}
	if r.Intn(2) == 0 {
		clauses = gen.Shuffle(r, clauses)
	}
	return clauses
}

// cliBase: the fields every cli case has.
func cliBase(r *rand.Rand, kind string, n int, cons []gen.M) gen.M {
	if cons == nil {
		cons = []gen.M{}
	}
	for _, c := range cons {
		if _, ok := c["weight"]; !ok {
			c["weight"] = 0
		}
	}
	return gen.M{"drv": "cli", "kind": kind, "sfx": kind, "st": "wellformed", "n": n, "cons": cons, "hasObj": false, "obj": gen.NoObj(), "top": 0,
		"tokens": []string{}, "names": []string{}, "flags": []string{}, "missing": false, "text": "", "ext": "",
		"cfg": gen.M{"layout": r.Intn(2), "layoutSeed": r.Intn(1 << 20)}, "ev": []gen.M{gen.Op("run")}}
}

func hasFlag(flags []string, f string) bool {
	for _, x := range flags {
		if x == f {
			return true
		}
	}
	return false
}

// cliFile: a well-formed file of the given suffix, shaped for the flags it will be run with.
func cliFile(r *rand.Rand, sfx string, flags []string) gen.M {
	switch sfx {
	case "cnf":
		n := 1 + r.Intn(6)
		clauses := gen.RandCNF(r, n, r.Intn(4*n+1), 3, r.Intn(4) == 0)
		if r.Intn(10) == 0 {
			clauses = nil
		}
		if hasFlag(flags, "-mus") && r.Intn(3) > 0 { // mostly unsatisfiable files for the MUS flag
			n, clauses = unsatBiasedCNF(r, 5)
		}
		if hasFlag(flags, "-cp") && !hasFlag(flags, "-mus") && !hasFlag(flags, "-count") && r.Intn(2) == 0 {
			// pairwise at-most-one groups: what -cp rewrites into cardinality constraints
			n = 5 + r.Intn(4)
			clauses = amoRichCNF(r, n)
		}
		return cliBase(r, "cnf", n, gen.ClauseCtors(clauses))
	case "opb":
		n := 1 + r.Intn(5)
		var cons []gen.M
		for j := 0; j < r.Intn(5); j++ {
			cons = append(cons, opbCons(r, n, 3))
		}
		if hasFlag(flags, "-count") && r.Intn(3) > 0 { // constraints that fix variables, several times
			cons = nil
			for j := 0; j < 2+r.Intn(4); j++ {
				cons = append(cons, gen.Ctor("gteq", []int{gen.RandLit(r, n)}, []int{1 + r.Intn(2)}, 1))
			}
		}
		c := cliBase(r, "opb", n, cons)
		if r.Intn(3) > 0 {
			c["hasObj"], c["obj"] = true, gen.RandObj(r, n, 0, 3)
		}
		return c
	case "wcnf":
		n := 1 + r.Intn(5)
		var cons []gen.M
		for j := 0; j < 1+r.Intn(5); j++ {
			cons = append(cons, msCons(r, n, true))
		}
		w := wcnfCase(r, n, cons)
		c := cliBase(r, "wcnf", w["n"].(int), cons)
		c["top"] = w["top"]
		return c
	default: // bf
		k := 1 + r.Intn(4)
		names := gen.Names(k)
		if r.Intn(3) == 0 {
			names = gen.RandNames(r, k)
		}
		toks := gen.Tokens(r, gen.RandSyntaxTree(r, k, 1+r.Intn(7)), names, 1, 0.1)
		if r.Intn(3) == 0 {
			// one row of the truth table of a formula over a large exactly-one group, at either polarity: the
			// group, then one clause per variable fixing it (few variables true, the last listed ones more often)
			k = 5 + r.Intn(3)
			names = gen.Names(k)
			perm := r.Perm(k)
			grp := []string{"{"}
			for i, v := range perm {
				if i > 0 {
					grp = append(grp, ",")
				}
				grp = append(grp, names[v])
			}
			grp = append(grp, "}")
			switch r.Intn(4) {
			case 0:
				toks = append([]string{"^"}, grp...)
			case 1:
				toks = append(append([]string{}, grp...), "->", names[r.Intn(k)])
			case 2:
				toks = append([]string{names[r.Intn(k)], "="}, grp...)
			default:
				toks = append([]string{}, grp...)
			}
			val := make([]bool, k)
			for x := r.Intn(4); x > 0; x-- {
				pick := perm[k-1-r.Intn(3)]
				if r.Intn(3) == 0 {
					pick = r.Intn(k)
				}
				val[pick] = true
			}
			for v := 0; v < k; v++ {
				toks = append(toks, ";")
				if !val[v] {
					toks = append(toks, "^")
				}
				toks = append(toks, names[v])
			}
		}
		c := cliBase(r, "bf", k, nil)
		c["tokens"], c["names"] = toks, names
		return c
	}
}

// cliBad: a path that cannot be read, a file whose content is not of its kind, or a file with an
// unknown suffix (whatever is in it).
func cliBad(r *rand.Rand, sfx, st string) gen.M {
	c := cliBase(r, "bad", 0, nil)
	c["sfx"], c["st"], c["ext"] = sfx, st, "."+sfx
	malformed := map[string][]string{
		"cnf":  {"p cnf 2 1\n1 x 0\n", "p cnf 2 1\n1 2\n3 z", "p cnf two 1\n1 0\n"},
		"opb":  {"* #variable= 2 #constraint= 1\n+1 x1 +1 y2 >= 1 ;\n", "* c\n+1 x1 >= ;\n"},
		"wcnf": {"p wcnf 2 1 10\n3 1 x 0\n"},
		"bf":   {"a & & b", "(a | b", "a -> ; b )"},
		"txt":  {"hello\n", "1 2 0\n"},
	}
	switch st {
	case "missing":
		c["missing"] = true
	case "malformed":
		l := malformed[sfx]
		c["text"] = l[r.Intn(len(l))]
	default: // a well-formed DIMACS text behind a suffix the tool does not know
		c["text"] = "p cnf 1 1\n1 0\n"
	}
	return c
}

// cliConfigured: one case for a (suffix, file state, flag set) configuration of CLI.tla.
func cliConfigured(r *rand.Rand, sfx, st string, flags []string) gen.M {
	var c gen.M
	if st != "wellformed" || sfx == "txt" {
		c = cliBad(r, sfx, st)
	} else {
		c = cliFile(r, sfx, flags)
	}
	c["flags"] = append([]string{}, flags...)
	return c
}

var cliFlags = []string{"-verbose", "-certified", "-mus", "-count", "-cp"}

func init() {
	register(&core.Check{
		ID:          "C19",
		TraceModule: "CLITrace",
		NeedCLI:     true,
		Budget:      0,
		Designs: []core.Design{
			{Name: "cli-configurations", Module: "CLIGen", Cfg: "CLIGen.cfg", Workers: 2, XmxMB: 2000, Timeout: 5 * time.Minute,
				ToCases: func(env *core.Env, emitted []core.Case) []core.Case {
					var res []core.Case
					for _, e := range emitted {
						var flags []string
						for _, f := range e["flags"].([]any) {
							flags = append(flags, f.(string))
						}
						// more files for the configurations with the richest pipelines
						sfx, st := e["sfx"].(string), e["st"].(string)
						reps := 2
						switch {
						case st != "wellformed" || sfx == "txt":
							reps = 1
						case hasFlag(flags, "-mus"):
							reps = 3
						case hasFlag(flags, "-count") && sfx == "opb":
							reps = 8
						case hasFlag(flags, "-cp") && sfx == "cnf" && !hasFlag(flags, "-count"):
							reps = 12
						case sfx == "opb" || sfx == "wcnf":
							reps = 3
						}
						for k := 0; k < reps*env.Pick(1, 6); k++ {
							res = append(res, cliConfigured(env.Rand, sfx, st, flags))
						}
					}
					return res
				}},
		},
		Cases: func(env *core.Env) []core.Case {
			r := env.Rand
			var res []core.Case
			for i := 0; i < env.Pick(600, 8000); i++ {
				sfx := []string{"cnf", "cnf", "cnf", "cnf", "opb", "opb", "wcnf", "wcnf", "bf", "txt"}[r.Intn(10)]
				st := "wellformed"
				if r.Intn(10) == 0 {
					st = []string{"missing", "malformed"}[r.Intn(2)]
				}
				var flags []string
				switch r.Intn(4) {
				case 0: // no flag
				case 1, 2: // one flag
					flags = []string{cliFlags[r.Intn(len(cliFlags))]}
				default: // a combination
					for _, f := range cliFlags {
						if r.Intn(3) == 0 {
							flags = append(flags, f)
						}
					}
				}
				res = append(res, cliConfigured(r, sfx, st, flags))
			}
			return res
		},
		Cover: func(t core.Case, cov map[string]int) bool {
			cov["kind."+s(t, "kind")]++
			cov["state."+s(t, "st")]++
			fl, _ := t["flags"].([]any)
			for _, f := range fl {
				cov["flag."+f.(string)]++
			}
			if len(fl) >= 2 {
				cov["flags.combined"]++
			}
			nt := false
			for _, e := range evs(t) {
				if s(e, "op") == "run" {
					cov["answer."+s(e, "s")]++
					if b(e, "hasMus") {
						cov["mus.printed"]++
					}
					if n(e, "count") >= 0 && s(t, "kind") != "bad" {
						cov["count.printed"]++
					}
					if l, _ := e["cert"].([]any); len(l) > 0 {
						cov["cert.lines"]++
					}
					if l, _ := e["o"].([]any); len(l) >= 2 {
						cov["o.several"]++
					}
					nt = len(sub(t, "cons")) >= 2
				}
			}
			return nt
		},
		Rule:    "cases: every (suffix, file state, flag set) configuration enumerated by CLIGen.tla (5 x 3 x 32 = 480), 1..12 generated files each in the quick tier (6 times as many in the thorough tier), plus seeded random configurations: .cnf (n<=6, at-most-one-rich under -cp, mostly unsatisfiable under -mus), .opb (n<=5, with / without objective), .wcnf, .bf files with seeded layout, missing paths, malformed files of each kind, unknown suffix; the executable is built from /repo and run once per case; its output is tokenised into answer lines and judged by CLI!Expect of the configuration; non-trivial = at least two constraints in the file",
		Require: []string{"kind.cnf", "kind.opb", "kind.wcnf", "kind.bf", "kind.bad", "state.missing", "state.malformed", "flag.-cp", "flag.-verbose", "flag.-count", "flag.-certified", "flag.-mus", "flags.combined", "answer.SATISFIABLE", "answer.UNSATISFIABLE", "answer.OPTIMUM FOUND", "mus.printed", "count.printed", "cert.lines"},
	})
}
