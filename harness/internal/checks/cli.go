package checks

import (
	"math/rand"

	"verifharness/internal/core"
	"verifharness/internal/gen"
)

// amoRichCNF: several pairwise at-most-one groups (complete or not) plus a few longer clauses.
func amoRichCNF(r *rand.Rand, nv int) [][]int {
	var clauses [][]int
	for g := 0; g < 2+r.Intn(2); g++ {
		k := 3 + r.Intn(min(nv, 5)-2)
		lits := gen.DistinctLits(r, nv, k)
		if r.Intn(3) > 0 {
			for j := range lits {
				if lits[j] > 0 {
					lits[j] = -lits[j]
				}
			}
		}
		for a := 0; a < len(lits); a++ {
			for c := a + 1; c < len(lits); c++ {
				if r.Intn(8) == 0 {
					continue
				}
				clauses = append(clauses, []int{lits[a], lits[c]})
			}
		}
	}
	for j := 0; j < r.Intn(4); j++ {
		clauses = append(clauses, gen.RandClause(r, nv, 2+r.Intn(2), true))
	}
	if r.Intn(2) == 0 {
		clauses = gen.Shuffle(r, clauses)
	}
	return clauses
}

func init() {
	register(&core.Check{
		ID:          "C19",
		TraceModule: "CLITrace",
		NeedCLI:     true,
		Budget:      0,
		Cases: func(env *core.Env) []core.Case {
			r := env.Rand
			var res []core.Case
			base := func(kind string, n int, cons []gen.M) gen.M {
				if cons == nil {
					cons = []gen.M{}
				}
				for _, c := range cons {
					if _, ok := c["weight"]; !ok {
						c["weight"] = 0
					}
				}
				return gen.M{"drv": "cli", "kind": kind, "mode": "solve", "n": n, "cons": cons, "hasObj": false, "obj": gen.NoObj(), "top": 0,
					"tokens": []string{}, "names": []string{}, "flags": []string{}, "missing": false, "text": "", "ext": "",
					"cfg": gen.M{"layout": r.Intn(2), "layoutSeed": r.Intn(1 << 20)}, "ev": []gen.M{gen.Op("run")}}
			}
			for i := 0; i < env.Pick(700, 8000); i++ {
				switch r.Intn(10) {
				case 0, 1, 2, 3: // .cnf with every flag
					n := 1 + r.Intn(6)
					clauses := gen.RandCNF(r, n, r.Intn(4*n+1), 3, r.Intn(4) == 0)
					if r.Intn(10) == 0 {
						clauses = nil
					}
					amoRich := r.Intn(3) == 0
					if amoRich { // pairwise at-most-one groups: what -cp rewrites into cardinality constraints
						n = 5 + r.Intn(4)
						clauses = amoRichCNF(r, n)
					}
					c := base("cnf", n, gen.ClauseCtors(clauses))
					sel := r.Intn(7)
					if amoRich && r.Intn(4) > 0 {
						sel = 3
					}
					switch sel {
					case 0:
						c["flags"], c["mode"] = []string{"-count"}, "count"
					case 1:
						c["flags"], c["mode"] = []string{"-certified"}, "cert"
					case 2:
						c["flags"], c["mode"] = []string{"-mus"}, "mus"
					case 3:
						c["flags"] = []string{"-cp"}
					case 4:
						c["flags"] = []string{"-verbose"}
					}
					res = append(res, c)
				case 4, 5: // .opb
					n := 1 + r.Intn(5)
					var cons []gen.M
					for j := 0; j < r.Intn(5); j++ {
						cons = append(cons, opbCons(r, n, 3))
					}
					c := base("opb", n, cons)
					if r.Intn(3) > 0 {
						c["hasObj"], c["obj"] = true, gen.RandObj(r, n, 0, 3)
					}
					if r.Intn(4) == 0 {
						c["flags"] = []string{"-cp"}
					} else if r.Intn(5) < 2 { // counting the models of an OPB file (the objective plays no role)
						c["flags"], c["mode"] = []string{"-count"}, "count"
						if r.Intn(3) > 0 { // constraints that fix variables, several times
							cons = nil
							for j := 0; j < 2+r.Intn(4); j++ {
								l := gen.RandLit(r, n)
								cons = append(cons, gen.Ctor("gteq", []int{l}, []int{1 + r.Intn(2)}, 1))
							}
							for _, k := range cons {
								k["weight"] = 0
							}
							c["cons"] = cons
						}
					}
					res = append(res, c)
				case 6, 7: // .wcnf
					n := 1 + r.Intn(5)
					var cons []gen.M
					for j := 0; j < 1+r.Intn(5); j++ {
						cons = append(cons, msCons(r, n, true))
					}
					w := wcnfCase(r, n, cons)
					c := base("wcnf", w["n"].(int), cons)
					c["top"] = w["top"]
					res = append(res, c)
				case 8: // .bf
					k := 1 + r.Intn(4)
					names := gen.Names(k)
					toks := gen.Tokens(r, gen.RandSyntaxTree(r, k, 1+r.Intn(7)), names, 1, 0.1)
					c := base("bf", k, nil)
					c["tokens"], c["names"] = toks, names
					res = append(res, c)
				default: // error cases
					c := base("bad", 0, nil)
					exts := []string{".cnf", ".opb", ".wcnf", ".bf", ".txt"}
					switch r.Intn(8) {
					case 0:
						c["missing"], c["ext"] = true, exts[r.Intn(len(exts))]
					case 1:
						c["text"], c["ext"] = "p cnf 1 1\n1 0\n", ".txt"
					case 2:
						c["text"], c["ext"] = "p cnf 2 1\n1 x 0\n", ".cnf"
					case 3:
						c["text"], c["ext"] = "p cnf 2 1\n1 2\n3 z", ".cnf"
					case 4:
						c["text"], c["ext"] = "* #variable= 2 #constraint= 1\n+1 x1 +1 y2 >= 1 ;\n", ".opb"
					case 5:
						c["text"], c["ext"] = "* c\n+1 x1 >= ;\n", ".opb"
					case 6:
						c["text"], c["ext"] = "p wcnf 2 1 10\n3 1 x 0\n", ".wcnf"
					default:
						c["text"], c["ext"] = "a & & b", ".bf"
					}
					// every mode of the tool has its own way of opening and reading the file
					if fl := []string{"", "-count", "-certified", "-mus", "-cp", "-verbose"}[r.Intn(6)]; fl != "" {
						c["flags"] = []string{fl}
						cov := map[string]string{"-count": "count", "-certified": "cert", "-mus": "mus"}
						if m, ok := cov[fl]; ok {
							c["errmode"] = m
						}
					}
					res = append(res, c)
				}
			}
			return res
		},
		Cover: func(t core.Case, cov map[string]int) bool {
			cov["kind."+s(t, "kind")]++
			if s(t, "kind") == "bad" {
				cov["bad.mode."+s(t, "errmode")]++
			}
			cov["mode."+s(t, "mode")]++
			if fl, _ := t["flags"].([]any); len(fl) > 0 {
				f, _ := fl[0].(string)
				cov["flag."+f]++
			}
			nt := false
			for _, e := range evs(t) {
				if s(e, "op") == "run" {
					cov["answer."+s(e, "s")]++
					if b(e, "hasMus") {
						cov["mus.printed"]++
					}
					if l, _ := e["o"].([]any); len(l) >= 2 {
						cov["o.several"]++
					}
					nt = len(sub(t, "cons")) >= 2
				}
			}
			return nt
		},
		Rule:    "cases: generated .cnf (n<=6; flags none, -count, -certified, -mus, -cp, -verbose), .opb (n<=5, with / without objective, -cp), .wcnf and .bf files with seeded layout, plus unreadable path / unknown suffix / malformed file of each kind under each flag; the executable is built from /repo and run once per case; its output is tokenised into answer lines; non-trivial = at least two constraints in the file",
		Require: []string{"kind.cnf", "kind.opb", "kind.wcnf", "kind.bf", "kind.bad", "mode.count", "mode.cert", "mode.mus", "flag.-cp", "flag.-verbose", "answer.SATISFIABLE", "answer.UNSATISFIABLE", "answer.OPTIMUM FOUND", "mus.printed", "bad.mode.", "bad.mode.count", "bad.mode.cert", "bad.mode.mus"},
	})
}
