// Package sched is the gate controller used to replay schedules enumerated by TLC on the real
// code: the verif hooks of the library call Hook at their scheduling points, which blocks the
// calling goroutine until the controller releases it.
package sched

import (
	"fmt"
	"sync"
	"time"
)

// Ctl controls a set of named processes, each of which runs through a sequence of gates.
type Ctl struct {
	mu      sync.Mutex
	arrived map[string]int
	rel     map[string]chan struct{}
	Points  []string
}

func New(procs ...string) *Ctl {
	c := &Ctl{arrived: map[string]int{}, rel: map[string]chan struct{}{}}
	for _, p := range procs {
		c.rel[p] = make(chan struct{})
	}
	return c
}

// Hook returns the gate function of process who.
func (c *Ctl) Hook(who string, prefixes ...string) func(point string) {
	return func(point string) {
		if len(prefixes) > 0 {
			match := false
			for _, p := range prefixes {
				if len(point) >= len(p) && point[:len(p)] == p {
					match = true
				}
			}
			if !match { // a scheduling point of another protocol: not a gate here
				return
			}
		}
		c.mu.Lock()
		c.arrived[who]++
		c.Points = append(c.Points, who+":"+point)
		ch := c.rel[who]
		c.mu.Unlock()
		<-ch
	}
}

// Arrived returns how many gates process who has reached so far.
func (c *Ctl) Arrived(who string) int {
	c.mu.Lock()
	defer c.mu.Unlock()
	return c.arrived[who]
}

// Release lets process who pass the gate it is waiting at; it fails if the process does not reach a
// gate within the timeout.
func (c *Ctl) Release(who string, timeout time.Duration) error {
	select {
	case c.rel[who] <- struct{}{}:
		return nil
	case <-time.After(timeout):
		return fmt.Errorf("process %s is not at a gate", who)
	}
}

// Drain releases every process for ever (used to let a case finish after a mismatch).
func (c *Ctl) Drain() {
	for _, ch := range c.rel {
		go func(ch chan struct{}) {
			for {
				select {
				case ch <- struct{}{}:
				case <-time.After(2 * time.Second):
					return
				}
			}
		}(ch)
	}
}
