// Package gen holds the seeded generators of cases. Generators produce inputs only (abstract
// problems, call histories, configurations); they never compute an expected answer.
package gen

import (
	"math/rand"
)

type M = map[string]any

// Ctor builds a constructor record, the form in which constraints "as the caller wrote them" are
// handed both to the driver (which calls the real constructor) and to the specification (which
// gives the constructor its meaning, Logic!AsWritten).
func Ctor(k string, lits, w []int, rhs int) M {
	if lits == nil {
		lits = []int{}
	}
	if w == nil {
		w = make([]int, len(lits))
		for i := range w {
			w[i] = 1
		}
	}
	return M{"k": k, "lits": lits, "w": w, "rhs": rhs}
}

func Clause(lits ...int) M { return Ctor("clause", lits, nil, 1) }

func NoObj() M { return M{"lits": []int{}, "w": []int{}} }

// RandLit returns a random literal over 1..n.
func RandLit(r *rand.Rand, n int) int {
	v := 1 + r.Intn(n)
	if r.Intn(2) == 0 {
		return -v
	}
	return v
}

// RandClause returns a clause of the given length over 1..n; when clean, variables are distinct.
func RandClause(r *rand.Rand, n, length int, clean bool) []int {
	c := make([]int, 0, length)
	if clean {
		if length > n {
			length = n
		}
		p := r.Perm(n)
		for i := 0; i < length; i++ {
			l := p[i] + 1
			if r.Intn(2) == 0 {
				l = -l
			}
			c = append(c, l)
		}
		return c
	}
	for i := 0; i < length; i++ {
		c = append(c, RandLit(r, n))
	}
	return c
}

// DistinctLits returns k literals over distinct variables of 1..n (k <= n).
func DistinctLits(r *rand.Rand, n, k int) []int { return RandClause(r, n, k, true) }

func MaxVar(clauses [][]int) int {
	m := 0
	for _, c := range clauses {
		for _, l := range c {
			if l < 0 {
				l = -l
			}
			if l > m {
				m = l
			}
		}
	}
	return m
}

// RandCNF returns m clauses over 1..n with lengths in 0..maxLen biased towards 2-3; "dirty"
// formulas contain empty clauses, repeated literals and tautologies with small probability.
func RandCNF(r *rand.Rand, n, m, maxLen int, dirty bool) [][]int {
	res := make([][]int, 0, m)
	for i := 0; i < m; i++ {
		length := 1 + r.Intn(maxLen)
		if length > 1 && r.Intn(3) > 0 && maxLen >= 3 {
			length = 2 + r.Intn(2)
		}
		if dirty && r.Intn(40) == 0 {
			length = 0
		}
		clean := !dirty || r.Intn(4) > 0
		res = append(res, RandClause(r, n, length, clean))
	}
	return res
}

// RandKSAT returns m clauses of exactly k distinct variables over 1..n (k <= n).
func RandKSAT(r *rand.Rand, n, m, k int) [][]int {
	if k > n {
		k = n
	}
	res := make([][]int, 0, m)
	for i := 0; i < m; i++ {
		res = append(res, RandClause(r, n, k, true))
	}
	return res
}

// ChainCNF: parse-time unit propagation stress. A unit literal, implications that fan out from it
// (so that units are discovered over several passes over the clause list), and a few longer
// clauses made of negated forced literals plus free positive literals, which only become unit or
// falsified once the last forced literal is known. The clause order is either shuffled or the
// worst case for a pass-based propagation: consequences listed before their sources.
func ChainCNF(r *rand.Rand, n int) [][]int {
	perm := r.Perm(n)
	k := 2 + r.Intn(n-1) // number of forced literals
	if k > n-1 {
		k = n - 1
	}
	forced := make([]int, k)
	for i := range forced {
		forced[i] = perm[i] + 1
		if r.Intn(2) == 0 {
			forced[i] = -forced[i]
		}
	}
	var impl [][]int
	for i := 1; i < k; i++ {
		from := forced[r.Intn(i)] // implied by an earlier forced literal (fan-out, not only a path)
		impl = append(impl, []int{-from, forced[i]})
	}
	var decided [][]int
	for j := 0; j < 1+r.Intn(2); j++ {
		var c []int
		for _, x := range r.Perm(k) {
			if len(c) == 2+r.Intn(2) {
				break
			}
			c = append(c, -forced[x])
		}
		if r.Intn(4) > 0 { // a free variable, positive: the clause becomes unit once the forced ones are known
			c = append(c, perm[k+r.Intn(n-k)]+1)
		}
		decided = append(decided, c)
	}
	var side [][]int
	for j := 0; j < r.Intn(4); j++ {
		side = append(side, RandClause(r, n, 2+r.Intn(2), true))
	}
	unit := [][]int{{forced[0]}}
	if r.Intn(2) == 0 {
		all := append(append(append(unit, impl...), decided...), side...)
		return Shuffle(r, all)
	}
	// consequences first: implications in reverse order of derivation, then the unit, then the rest
	var res [][]int
	for i := len(impl) - 1; i >= 0; i-- {
		res = append(res, impl[i])
	}
	if r.Intn(2) == 0 {
		res = append(res, unit...)
		res = append(res, decided...)
	} else {
		res = append(res, decided...)
		res = append(res, unit...)
	}
	return append(res, side...)
}

func ClauseCtors(clauses [][]int) []M {
	res := make([]M, len(clauses))
	for i, c := range clauses {
		res[i] = Clause(c...)
	}
	return res
}

// Cfg is the configuration part of an api case.
func Cfg(cert bool, reduceAt, restartEvery int, cp, amo, wb bool) M {
	return M{"cert": cert, "reduceAt": reduceAt, "restartEvery": restartEvery, "cp": cp, "amo": amo, "wb": wb,
		"cap": 0, "layout": 0, "layoutSeed": 0}
}

// APICase assembles an api case.
func APICase(front string, n int, strict bool, cons []M, hasObj bool, obj M, cfg M, ev []M) M {
	if cons == nil {
		cons = []M{}
	}
	if obj == nil {
		obj = NoObj()
	}
	return M{"drv": "api", "front": front, "n": n, "strict": strict, "cons": cons, "hasObj": hasObj, "obj": obj,
		"objNilW": false, "wbStrict": false, "cfg": cfg, "ev": ev}
}

func Op(op string) M { return M{"op": op} }

func OpChan(op string, ch bool) M { return M{"op": op, "chan": ch} }

// Shuffle returns a shuffled copy of clauses (clause order and literal order).
func Shuffle(r *rand.Rand, clauses [][]int) [][]int {
	res := make([][]int, len(clauses))
	for i, j := range r.Perm(len(clauses)) {
		c := make([]int, len(clauses[j]))
		for a, b := range r.Perm(len(c)) {
			c[a] = clauses[j][b]
		}
		res[i] = c
	}
	return res
}

// PlantedKSAT returns m clauses of k distinct variables over 1..n that are all satisfied by the
// returned assignment (index v-1): a formula that is satisfiable by construction. The oracle of the
// trace specification does not trust the generator: it evaluates the witness on the clauses.
func PlantedKSAT(r *rand.Rand, n, m, k int) ([][]int, []bool) {
	w := make([]bool, n)
	for i := range w {
		w[i] = r.Intn(2) == 0
	}
	res := make([][]int, 0, m)
	for len(res) < m {
		c := RandClause(r, n, k, true)
		ok := false
		for _, l := range c {
			v := l
			if v < 0 {
				v = -v
			}
			if w[v-1] == (l > 0) {
				ok = true
			}
		}
		if ok {
			res = append(res, c)
		}
	}
	return res, w
}

// WideChain is an unsatisfiable formula whose refutation needs one decision level per chain variable:
// (a_1 v ... v a_n v z), (a_1 v ... v a_n v -z); a_{i+1} -> a_i stated as (-a_{i+1} v a_i v w_i),
// (-a_{i+1} v a_i v -w_i); a_1 false stated as (-a_1 v u), (-a_1 v -u). The first learned clauses of a
// CDCL run have about n literals: a family that reaches sizes random formulas never reach.
func WideChain(r *rand.Rand, n int, ordered bool) (clauses [][]int, nbVars int) {
	nbVars = 2*n + 1
	perm := r.Perm(nbVars)
	if ordered {
		// a_1 is the first variable, the auxiliary variables follow, the other chain variables come last in
		// decreasing order: a solver that decides variables in index order walks the chain from its far end
		perm[0] = 0
		for i := 1; i < n; i++ {
			perm[i] = nbVars - i
		}
		for i := 0; i+1 < n; i++ {
			perm[n+i] = 3 + i
		}
		perm[2*n-1], perm[2*n] = 1, 2
	}
	v := func(i int) int { return perm[i] + 1 }
	a := func(i int) int { return v(i) }   // i in 0..n-1
	w := func(i int) int { return v(n + i) } // i in 0..n-2
	z, u := v(2*n-1), v(2*n)
	var wide1, wide2 []int
	for i := 0; i < n; i++ {
		wide1, wide2 = append(wide1, a(i)), append(wide2, a(i))
	}
	clauses = append(clauses, append(wide1, z), append(wide2, -z))
	for i := 0; i+1 < n; i++ {
		clauses = append(clauses, []int{-a(i + 1), a(i), w(i)}, []int{-a(i + 1), a(i), -w(i)})
	}
	clauses = append(clauses, []int{-a(0), u}, []int{-a(0), -u})
	return clauses, nbVars
}
