package gen

import "math/rand"

// RandCardCtor returns a random constructor call of the cardinality front end over 1..n.
// Each variable occurs at most once (precondition of the property).
func RandCardCtor(r *rand.Rand, n int) M {
	k := 1 + r.Intn(min(n, 5))
	lits := DistinctLits(r, n, k)
	switch r.Intn(6) {
	case 0:
		return Clause(lits...)
	case 1:
		return Ctor("atmost1", lits, nil, 1)
	case 2:
		return Ctor("exactly1", lits, nil, 1)
	case 3: // unit: triggers parse-time simplification
		return Clause(lits[0])
	default:
		rhs := r.Intn(k+3) - 1 // -1 .. k+1: trivially true, ordinary, all-true, impossible
		return Ctor("atleast", lits, nil, rhs)
	}
}

// RandPBCtor returns a random constructor call of the PB front end over 1..n with coefficients in [-W, W].
func RandPBCtor(r *rand.Rand, n, W int) M {
	k := 1 + r.Intn(min(n, 5))
	lits := DistinctLits(r, n, k)
	switch r.Intn(9) {
	case 0:
		return Clause(lits...)
	case 1:
		return Clause(lits[0])
	case 2:
		return Ctor("atleast", lits, nil, r.Intn(k+3)-1)
	case 3:
		return Ctor("atmost", lits, nil, r.Intn(k+3)-1)
	}
	w := make([]int, k)
	sumPos, sumNeg := 0, 0
	for i := range w {
		w[i] = r.Intn(2*W+1) - W
		if r.Intn(3) == 0 && w[i] < 0 {
			w[i] = -w[i]
		}
		if w[i] > 0 {
			sumPos += w[i]
		} else {
			sumNeg += w[i]
		}
	}
	rhs := sumNeg - 1 + r.Intn(sumPos-sumNeg+3) // from below the minimum to above the maximum
	kinds := []string{"gteq", "gteq", "lteq", "eq", "gteq"}
	return Ctor(kinds[r.Intn(len(kinds))], lits, w, rhs)
}

// RandObj returns a cost function over distinct variables of 1..n with weights in lo..hi.
func RandObj(r *rand.Rand, n, lo, hi int) M {
	k := 1 + r.Intn(n)
	lits := DistinctLits(r, n, k)
	w := make([]int, k)
	for i := range w {
		w[i] = lo + r.Intn(hi-lo+1)
	}
	return M{"lits": lits, "w": w}
}

func min(a, b int) int {
	if a < b {
		return a
	}
	return b
}

// RandAppendCtor returns a constraint that can be appended to a live solver through the public
// constructors NewClause / NewCardClause / NewPBClause, over variables 1..n (n may exceed the
// solver's current variable count: growth of the variable set).
func RandAppendCtor(r *rand.Rand, n int, clausesOnly, dirty bool) M {
	kind := r.Intn(10)
	if clausesOnly || kind < 6 {
		length := 1 + r.Intn(3)
		c := RandClause(r, n, length, true)
		if dirty && len(c) > 0 { // repeat a literal, or add the complement of one
			x := c[r.Intn(len(c))]
			if r.Intn(3) == 0 {
				x = -x
			}
			c = append(c, x)
			if r.Intn(3) == 0 {
				c = append(c, x)
			}
			r.Shuffle(len(c), func(i, j int) { c[i], c[j] = c[j], c[i] })
		}
		return Clause(c...)
	}
	k := 1
	if n >= 2 {
		k = 2 + r.Intn(min(n, 4)-1)
	}
	lits := DistinctLits(r, n, k)
	if kind < 8 {
		return Ctor("atleast", lits, nil, 1+r.Intn(len(lits))) // NewCardClause needs 1 <= card <= len
	}
	w := make([]int, len(lits))
	sum := 0
	for i := range w {
		w[i] = 1 + r.Intn(3)
		sum += w[i]
	}
	return Ctor("gteq", lits, w, 1+r.Intn(sum+1)) // NewPBClause needs card >= 1
}
