package gen

import "math/rand"

func leafV(i int) M     { return M{"op": "v", "i": i, "kids": []M{}} }
func konst(op string) M { return M{"op": op, "i": 0, "kids": []M{}} }
func node(op string, kids ...M) M {
	if kids == nil {
		kids = []M{}
	}
	return M{"op": op, "i": 0, "kids": kids}
}

// RandFormula returns a random formula tree over k names. pol is the polarity of the position
// (+1, -1, 0 = both); uniqPolicy: 0 = no exactly-one groups, 1 = only at positive polarity,
// 2 = anywhere. maxUniq bounds the size of exactly-one groups.
func RandFormula(r *rand.Rand, k, depth, pol, uniqPolicy, maxUniq int) M {
	if depth == 0 || r.Intn(5) == 0 {
		if r.Intn(12) == 0 {
			return konst([]string{"T", "F"}[r.Intn(2)])
		}
		return leafV(1 + r.Intn(k))
	}
	switch x := r.Intn(20); {
	case x < 3:
		return node("not", RandFormula(r, k, depth-1, -pol, uniqPolicy, maxUniq))
	case x < 8:
		op := "and"
		if r.Intn(2) == 0 {
			op = "or"
		}
		ar := r.Intn(4)
		kids := []M{}
		for i := 0; i < ar; i++ {
			kids = append(kids, RandFormula(r, k, depth-1, pol, uniqPolicy, maxUniq))
		}
		return node(op, kids...)
	case x < 11:
		return node("imp", RandFormula(r, k, depth-1, -pol, uniqPolicy, maxUniq), RandFormula(r, k, depth-1, pol, uniqPolicy, maxUniq))
	case x < 14:
		return node("eq", RandFormula(r, k, depth-1, 0, uniqPolicy, maxUniq), RandFormula(r, k, depth-1, 0, uniqPolicy, maxUniq))
	case x < 16:
		return node("xor", RandFormula(r, k, depth-1, 0, uniqPolicy, maxUniq), RandFormula(r, k, depth-1, 0, uniqPolicy, maxUniq))
	case x < 19:
		if uniqPolicy == 2 || (uniqPolicy == 1 && pol == 1) {
			sz := 1 + r.Intn(min(k, maxUniq))
			kids := []M{}
			for _, v := range r.Perm(k)[:sz] {
				kids = append(kids, leafV(v+1))
			}
			return node("uniq", kids...)
		}
		return leafV(1 + r.Intn(k))
	default:
		return leafV(1 + r.Intn(k))
	}
}

// UniqAll returns an exactly-one group over a random subset (at least k-2) of the k names.
func UniqAll(r *rand.Rand, k int) M {
	sz := k - r.Intn(3)
	if sz < 1 {
		sz = 1
	}
	kids := []M{}
	for _, v := range r.Perm(k)[:sz] {
		kids = append(kids, leafV(v+1))
	}
	return node("uniq", kids...)
}

// Names returns k distinct identifiers.
func Names(k int) []string {
	all := []string{"a", "b", "c", "d", "e", "f", "g", "h", "i", "j"}
	return all[:k]
}

// RandNames returns k distinct identifiers drawn from a pool of shapes an identifier can have: single
// letters, letters with digits and underscores, upper case, and words that mean something to the
// implementation language or to other formula syntaxes (they are plain identifiers in this one).
func RandNames(r *rand.Rand, k int) []string {
	pool := []string{"a", "b", "c", "x", "y", "z", "p", "q", "x1", "x2", "x10", "v_1", "_v", "_", "a_b", "Abc9", "X", "Y0", "lit", "var",
		"go", "if", "else", "for", "func", "type", "map", "range", "chan", "case", "default", "return", "select", "struct", "switch", "import", "package",
		"const", "break", "defer", "goto", "interface", "continue", "fallthrough", "nil", "true", "false", "iota", "int", "string", "len",
		"xor", "iff", "implies", "unique", "T", "F", "top", "bottom", "aa", "zz9"}
	perm := r.Perm(len(pool))
	res := make([]string, k)
	for i := range res {
		res[i] = pool[perm[i]]
	}
	return res
}

// ---- text syntax (C17) ----------------------------------------------------------------------

var prec = map[string]int{"semi": 1, "eq": 2, "imp": 3, "or": 4, "and": 5, "not": 6}
var sym = map[string]string{"semi": ";", "eq": "=", "imp": "->", "or": "|", "and": "&"}

// RandSyntaxTree: binary operators of the text syntax, negation, variables, small exactly-one groups.
func RandSyntaxTree(r *rand.Rand, k, size int) M {
	if size <= 1 {
		if r.Intn(10) == 0 && k >= 2 {
			sz := 1 + r.Intn(min(k, 4))
			kids := []M{}
			for _, v := range r.Perm(k)[:sz] {
				kids = append(kids, leafV(v+1))
			}
			return node("uniq", kids...)
		}
		return leafV(1 + r.Intn(k))
	}
	if r.Intn(5) == 0 {
		return node("not", RandSyntaxTree(r, k, size-1))
	}
	ops := []string{"semi", "eq", "imp", "or", "and", "or", "and"}
	op := ops[r.Intn(len(ops))]
	l := 1 + r.Intn(size-1)
	return node(op, RandSyntaxTree(r, k, l), RandSyntaxTree(r, k, size-l))
}

// Tokens renders a syntax tree as a token list with the parentheses the priorities require plus,
// with probability extra, redundant ones. need = the minimal priority the context accepts.
func Tokens(r *rand.Rand, f M, names []string, need int, extra float64) []string {
	op := f["op"].(string)
	kids := f["kids"].([]M)
	var toks []string
	p := 7
	switch op {
	case "v":
		toks = []string{names[f["i"].(int)-1]}
	case "uniq":
		toks = []string{"{"}
		for i, kd := range kids {
			if i > 0 {
				toks = append(toks, ",")
			}
			toks = append(toks, names[kd["i"].(int)-1])
		}
		toks = append(toks, "}")
	case "not":
		p = 6
		toks = append([]string{"^"}, Tokens(r, kids[0], names, 6, extra)...)
	default:
		p = prec[op]
		toks = append(toks, Tokens(r, kids[0], names, p+1, extra)...) // same operator on the left needs parentheses
		toks = append(toks, sym[op])
		toks = append(toks, Tokens(r, kids[1], names, p, extra)...)
	}
	if p < need || r.Float64() < extra {
		toks = append(append([]string{"("}, toks...), ")")
	}
	return toks
}

// Corrupt applies one token-level corruption.
func Corrupt(r *rand.Rand, toks []string) []string {
	res := append([]string{}, toks...)
	if len(res) == 0 {
		return res
	}
	i := r.Intn(len(res))
	switch r.Intn(4) {
	case 0: // drop
		res = append(res[:i], res[i+1:]...)
	case 1: // duplicate
		res = append(res[:i+1], res[i:]...)
	case 2: // swap with neighbour
		if i+1 < len(res) {
			res[i], res[i+1] = res[i+1], res[i]
		}
	default: // insert a random token
		all := []string{";", "=", "->", "|", "&", "^", "(", ")", "{", "}", ",", "a", "b"}
		res = append(res[:i], append([]string{all[r.Intn(len(all))]}, res[i:]...)...)
	}
	return res
}
