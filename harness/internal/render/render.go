// Package render prints abstract problems (the records the TLA+ specification gives a meaning to)
// as DIMACS CNF, OPB and WCNF text with a seeded free layout. It is a printer, not a parser: the
// independent reading of the three formats used by the conformance checks.
package render

import (
	"fmt"
	"math/rand"
	"strings"
)

// Layout controls the lexical freedom used by the printers. Level 0 is the canonical layout.
type Layout struct {
	Level int
	R     *rand.Rand
	wide  bool // one separator of this text is a very long run of blanks (a data line longer than 64 KiB)
}

// NewLayout returns a layout; level 0 = canonical, 1 = comments and spacing, 2 = also line breaks
// inside clauses, several clauses per line, CRLF, tabs.
func NewLayout(level int, seed int64) *Layout {
	l := &Layout{Level: level, R: rand.New(rand.NewSource(seed))}
	l.wide = level > 0 && l.R.Intn(30) == 0
	return l
}

func (l *Layout) coin(p float64) bool { return l.Level > 0 && l.R.Float64() < p }

// comment returns a comment line body. Comments are free text of any length: now and then one is longer
// than the buffers readers usually work with (4 KiB, 64 KiB), and it is made of what looks like data.
func (l *Layout) comment(short, filler string) string {
	if l.Level == 0 {
		return short
	}
	switch x := l.R.Intn(40); {
	case x == 0:
		return short + " " + strings.Repeat(filler, (66000+l.R.Intn(30000))/len(filler))
	case x <= 2:
		return short + " " + strings.Repeat(filler, (4000+l.R.Intn(5000))/len(filler))
	}
	return short
}

func (l *Layout) sp() string {
	if l.Level == 0 {
		return " "
	}
	switch l.R.Intn(6) {
	case 0:
		return "  "
	case 1:
		if l.Level >= 2 {
			return "\t"
		}
		return " "
	case 2:
		return "   "
	}
	return " "
}

func (l *Layout) nl() string {
	if l.Level >= 2 && l.R.Intn(4) == 0 {
		return "\r\n"
	}
	return "\n"
}

// DIMACS prints clauses (each a list of non-zero literals) with the given header counts.
func DIMACS(n int, clauses [][]int, l *Layout) string {
	var b strings.Builder
	if l.coin(0.5) {
		b.WriteString(l.comment("c generated problem", "1 -2 0 ") + l.nl())
	}
	b.WriteString(fmt.Sprintf("p%scnf%s%d%s%d", l.sp(), l.sp(), n, l.sp(), len(clauses)))
	if l.coin(0.2) {
		b.WriteString(" ")
	}
	b.WriteString(l.nl())
	lineStart := true
	for i, c := range clauses {
		if lineStart && l.coin(0.15) {
			b.WriteString(l.comment("c a comment 1 2 0", "-1 2 0 ") + l.nl())
		}
		if l.coin(0.1) {
			b.WriteString(l.sp())
		}
		lineStart = false
		for _, x := range c {
			b.WriteString(fmt.Sprintf("%d", x))
			if l.Level >= 2 && l.R.Intn(8) == 0 {
				b.WriteString(l.nl()) // a clause may span lines (no comment in the middle of a clause)
			} else {
				b.WriteString(l.sp())
			}
		}
		b.WriteString("0")
		last := i == len(clauses)-1
		if l.Level >= 2 && !last && l.R.Intn(6) == 0 {
			b.WriteString(l.sp()) // several clauses on one line
		} else if last && l.coin(0.3) {
			// no final newline
		} else {
			b.WriteString(l.nl())
			lineStart = true
		}
	}
	if l.coin(0.2) {
		b.WriteString(l.nl())
	}
	return b.String()
}

// A Term is coefficient * literal.
type Term struct {
	W   int
	Lit int
}

// A Lin is a linear constraint as written in an OPB file: sum of terms rel rhs, rel is ">=" or "=".
type Lin struct {
	Terms []Term
	Rel   string
	Rhs   int
}

func (l *Layout) term(t Term, first bool) string {
	v := t.Lit
	neg := ""
	if v < 0 {
		v = -v
		neg = "~"
	}
	w := fmt.Sprintf("%d", t.W)
	if t.W >= 0 && (!first || l.coin(0.5)) {
		w = "+" + w
	}
	return fmt.Sprintf("%s%sx%d", w+l.spNoTab(), neg, v)
}

func (l *Layout) spNoTab() string {
	if l.Level == 0 {
		return " "
	}
	if l.wide && l.R.Intn(5) == 0 {
		l.wide = false
		return strings.Repeat(" ", 66000+l.R.Intn(9000))
	}
	if l.R.Intn(4) == 0 {
		return "  "
	}
	return " "
}

// lastLine: the last line of a text file need not end with a newline.
func (l *Layout) lastLine(text string) string {
	if l.coin(0.3) {
		return strings.TrimSuffix(text, "\n")
	}
	return text
}

// OPB prints an OPB (linear, small integers) file: optional objective, then constraints.
func OPB(n int, hasObj bool, objTerms []Term, cons []Lin, l *Layout) string {
	var b strings.Builder
	b.WriteString(fmt.Sprintf("* #variable= %d #constraint= %d\n", n, len(cons)))
	if l.coin(0.4) {
		b.WriteString(l.comment("* a comment line ;", "+1 x1 >= 1 ; ") + "\n")
	}
	if hasObj {
		b.WriteString("min:")
		for i, t := range objTerms {
			b.WriteString(l.spNoTab() + l.term(t, i == 0))
		}
		b.WriteString(l.spNoTab() + ";\n")
	}
	for _, c := range cons {
		if l.coin(0.15) {
			b.WriteString(l.comment("* another comment", "-1 x1 >= 0 ; ") + "\n")
		}
		for i, t := range c.Terms {
			if i > 0 {
				b.WriteString(l.spNoTab())
			}
			b.WriteString(l.term(t, i == 0))
		}
		rhs := fmt.Sprintf("%d", c.Rhs)
		if c.Rhs >= 0 && l.coin(0.3) {
			rhs = "+" + rhs
		}
		b.WriteString(fmt.Sprintf("%s%s%s%s%s;", l.spNoTab(), c.Rel, l.spNoTab(), rhs, l.spNoTab()))
		b.WriteString("\n")
	}
	return l.lastLine(b.String())
}

// A WClause is a weighted clause of a WCNF file; Hard clauses are printed with the top weight.
type WClause struct {
	Hard   bool
	Weight int
	Lits   []int
}

// WCNF prints a (classic format) WCNF file. top = 0 means no top weight in the header (every clause
// is then soft and none may be Hard).
func WCNF(n int, top int, clauses []WClause, l *Layout) string {
	var b strings.Builder
	if l.coin(0.5) {
		b.WriteString(l.comment("c generated wcnf", "3 1 0 ") + "\n")
	}
	if top > 0 {
		b.WriteString(fmt.Sprintf("p wcnf %d %d %d\n", n, len(clauses), top))
	} else {
		b.WriteString(fmt.Sprintf("p wcnf %d %d\n", n, len(clauses)))
	}
	for _, c := range clauses {
		if l.coin(0.15) {
			b.WriteString(l.comment("c comment 3 1 0", "2 -1 0 ") + "\n")
		}
		w := c.Weight
		if c.Hard {
			w = top
		}
		b.WriteString(fmt.Sprintf("%d", w))
		for _, x := range c.Lits {
			b.WriteString(l.spNoTab() + fmt.Sprintf("%d", x))
		}
		b.WriteString(l.spNoTab() + "0\n")
	}
	return l.lastLine(b.String())
}
