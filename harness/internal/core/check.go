// Package core is the orchestrator behind cmd/vcheck: for one property it model-checks the
// design-level TLA+ modules with TLC, turns the behaviours TLC enumerated plus seeded random
// inputs into cases, executes them on the real code (vdrive, rebuilt from /repo), validates the
// recorded traces with the TLA+ trace specification, classifies rejections (reproduce, known
// findings) and writes the evidence file.
package core

import (
	"bufio"
	"bytes"
	"crypto/sha1"
	"encoding/hex"
	"encoding/json"
	"fmt"
	"math/rand"
	"os"
	"os/exec"
	"path/filepath"
	"sort"
	"strconv"
	"strings"
	"sync"
	"time"
)

type Case = map[string]any

// Env is the context of one run of one check.
type Env struct {
	Root    string // the /verif directory
	Tmp     string // scratch directory of this run (removed at the end)
	SpecDir string // scratch copy of spec/
	Tier    string
	Seed    int64
	Rand    *rand.Rand
	Vdrive  string
	Race    string // vdrive built with -race (only when a check asks for it)
	T0      time.Time
	// Counters filled by generators that execute code themselves (candidate scans); merged into the
	// coverage counters of the evidence.
	Counters map[string]int
}

func (e *Env) Logf(format string, a ...any) {
	fmt.Printf("[%6.1fs] %s\n", time.Since(e.T0).Seconds(), fmt.Sprintf(format, a...))
}

func (e *Env) Quick() bool { return e.Tier != "thorough" }

// Pick returns q in the quick tier and t in the thorough tier.
func (e *Env) Pick(q, t int) int {
	if e.Quick() {
		return q
	}
	return t
}

// A Design is one exhaustive (or simulated) TLC run on a design-level module.
type Design struct {
	Name      string
	Module    string
	Cfg       string
	Tier      string // "" = both tiers, "quick", "thorough"
	Workers   int
	XmxMB     int
	Timeout   time.Duration
	Coverage  bool
	MustCover []string // action/definition names whose coverage count must be positive
	Simulate  string
	Depth     int
	// Engine "apalache": symbolic bounded checking of invariant Inv over executions of length Depth
	// (module with @type annotations); default is TLC.
	Engine string
	Inv    string
	// ToCases turns the records the run emitted into driver cases. nil = the run emits nothing.
	ToCases func(env *Env, emitted []Case) []Case
	// ExpectViolation names an invariant that MUST be violated (an "as coded" variant of a module
	// that models a defect the intended variant does not have).
	ExpectViolation string
}

// A Check is the decision procedure of one property.
type Check struct {
	ID          string
	Designs     []Design
	Cases       func(env *Env) []Case // seeded random cases (ids are assigned by the orchestrator)
	TraceModule string
	Budget      time.Duration // per case wall clock budget in the driver
	// Cover updates the coverage counters from an executed trace and says whether it is non-trivial.
	Cover   func(tr Case, cov map[string]int) bool
	Rule    string
	Require []string // coverage counters that must be positive (vacuity gate)
	// Post is called with all traces before validation (e.g. to derive follow-up cases). Optional.
	Assumptions []string
	NeedRace    bool
	NeedCLI     bool // the check runs the gophersat executable: build it from /repo (no tag)
	// Amplify turns a diagnostic divergence (a rejected mechanism-level clause, why = "diag:...") of an
	// executed trace into follow-up cases in which the divergence would be decisive for the property
	// itself. The follow-ups go through the normal pipeline: only a property clause they violate counts.
	Amplify func(env *Env, in Case, tr Case, why string) []Case
	// Mech, if set, is a second validation pass over the executed traces: the recorded search of each
	// eligible trace is matched action by action against a mechanism-level specification (a trace
	// module that re-uses the actions of a design module). Its rejections are diagnostics (prefix
	// "mech:"), never verdicts: the properties do not prescribe an algorithm. An accepted search is a
	// behaviour of the design module, whose invariants then prove its verdict.
	Mech *Mech
	// Extra runs after the standard pipeline (schedule replay, race runs, ...); it may add
	// violations, notes and coverage.
	Extra func(env *Env, res *Result) error
}

// Mech describes the mechanism-level validation pass of a check.
type Mech struct {
	Module  string
	Project func(trace Case) Case // nil result: the trace is not eligible
	// at most that many searches are matched per pipeline pass in the quick / thorough tier (0: all)
	Quick, Thorough int
}

// Bad is one rejected step.
type Bad struct {
	Case string
	Ev   int
	Why  string
}

// Result accumulates what a run found.
type Result struct {
	States, Transitions int
	DesignStats         map[string]TLCStats
	Evaluations         int
	Nontrivial          map[string]bool
	Accepted            int
	Cov                 map[string]int
	Samples             []any
	Violations          []Violation
	Known               map[string]int
	Notes               []string
	TraceEvents         int
}

type Violation struct {
	Why    string
	Case   Case
	Trace  Case
	Replay string
}

// MachineryError is an error of the verification machinery itself (exit status 2).
type MachineryError struct{ Msg string }

func (m MachineryError) Error() string { return m.Msg }

func goEnv() []string {
	return append(os.Environ(), "GOFLAGS=-mod=mod", "GOPROXY=off", "GOSUMDB=off", "GOTOOLCHAIN=local", "CGO_ENABLED=0")
}

// BuildDriver rebuilds vdrive from /repo's current working tree with the verif tag.
func BuildDriver(env *Env, race bool) (string, error) {
	out := filepath.Join(env.Tmp, "vdrive")
	args := []string{"build", "-tags", "verif", "-o", out}
	e := goEnv()
	if race {
		out += "-race"
		args = []string{"build", "-race", "-tags", "verif", "-o", out}
		e = append(os.Environ(), "GOFLAGS=-mod=mod", "GOPROXY=off", "GOSUMDB=off", "GOTOOLCHAIN=local", "CGO_ENABLED=1")
	}
	if alt := os.Getenv("VERIF_DEV_REPO"); alt != "" { // development aid: build against another checkout (seeded changes)
		mf := filepath.Join(env.Tmp, "alt.mod")
		os.WriteFile(mf, []byte("module verifharness\n\ngo 1.19\n\nrequire github.com/crillab/gophersat v0.0.0\n\nreplace github.com/crillab/gophersat => "+alt+"\n"), 0o644)
		args = append(args[:1], append([]string{"-modfile=" + mf}, args[1:]...)...)
	}
	args = append(args, "./cmd/vdrive")
	cmd := exec.Command("go", args...)
	cmd.Dir = filepath.Join(env.Root, "harness")
	cmd.Env = e
	b, err := cmd.CombinedOutput()
	if err != nil {
		return "", MachineryError{fmt.Sprintf("cannot build the driver from /repo: %v\n%s", err, b)}
	}
	return out, nil
}

// NewEnv prepares the scratch directory and the scratch copy of the specification.
func NewEnv(root, tier string, seed int64) (*Env, error) {
	base := os.Getenv("VERIF_TMP")
	if base == "" {
		base = os.TempDir()
	}
	tmp, err := os.MkdirTemp(base, "vcheck-")
	if err != nil {
		return nil, err
	}
	env := &Env{Root: root, Tmp: tmp, Tier: tier, Seed: seed, Rand: rand.New(rand.NewSource(seed)), T0: time.Now(), Counters: map[string]int{}}
	env.SpecDir = filepath.Join(tmp, "spec")
	os.MkdirAll(env.SpecDir, 0o755)
	files, _ := filepath.Glob(filepath.Join(root, "spec", "*"))
	for _, f := range files {
		b, err := os.ReadFile(f)
		if err != nil {
			continue
		}
		os.WriteFile(filepath.Join(env.SpecDir, filepath.Base(f)), b, 0o644)
	}
	return env, nil
}

func (e *Env) Close() {
	if os.Getenv("VERIF_DEV_KEEP_TMP") != "" { // development aid: keep traces and verdicts for inspection
		fmt.Fprintln(os.Stderr, "kept:", e.Tmp)
		return
	}
	os.RemoveAll(e.Tmp)
}

func writeNDJSON(path string, cases []Case) error {
	f, err := os.Create(path)
	if err != nil {
		return err
	}
	w := bufio.NewWriterSize(f, 1<<20)
	for _, c := range cases {
		b, err := json.Marshal(c)
		if err != nil {
			return err
		}
		w.Write(b)
		w.WriteByte('\n')
	}
	if err := w.Flush(); err != nil {
		return err
	}
	return f.Close()
}

func readNDJSON(path string) ([]Case, error) {
	f, err := os.Open(path)
	if err != nil {
		if os.IsNotExist(err) {
			return nil, nil
		}
		return nil, err
	}
	defer f.Close()
	var res []Case
	sc := bufio.NewScanner(f)
	sc.Buffer(make([]byte, 1<<20), 1<<30)
	for sc.Scan() {
		if len(bytes.TrimSpace(sc.Bytes())) == 0 {
			continue
		}
		var c Case
		if err := json.Unmarshal(sc.Bytes(), &c); err != nil {
			return nil, err
		}
		res = append(res, c)
	}
	return res, sc.Err()
}

// Execute runs the cases through vdrive child processes (one per shard, restarted after a crash or
// a time-out) and returns one trace per case, in order.
func Execute(env *Env, bin string, cases []Case, budget time.Duration, tag string) ([]Case, error) {
	return ExecuteEnv(env, bin, cases, budget, tag, nil, 16)
}

// ExecuteEnv is Execute with extra environment variables for the driver and a bound on the number of shards.
func ExecuteEnv(env *Env, bin string, cases []Case, budget time.Duration, tag string, extraEnv []string, maxShards int) ([]Case, error) {
	if len(cases) == 0 {
		return nil, nil
	}
	if budget == 0 {
		budget = 5 * time.Second
	}
	nshard := maxShards
	if len(cases) < 4*maxShards {
		nshard = (len(cases) + 3) / 4
	}
	if nshard < 1 {
		nshard = 1
	}
	shards := make([][]Case, nshard)
	for i, c := range cases {
		shards[i%nshard] = append(shards[i%nshard], c)
	}
	results := make([][]Case, nshard)
	errs := make([]error, nshard)
	var wg sync.WaitGroup
	for si := range shards {
		wg.Add(1)
		go func(si int) {
			defer wg.Done()
			results[si], errs[si] = executeShard(env, bin, shards[si], budget, fmt.Sprintf("%s-%d", tag, si), extraEnv)
		}(si)
	}
	wg.Wait()
	byID := map[string]Case{}
	for si := range shards {
		if errs[si] != nil {
			return nil, errs[si]
		}
		for _, t := range results[si] {
			byID[t["id"].(string)] = t
		}
	}
	out := make([]Case, 0, len(cases))
	for _, c := range cases {
		t, ok := byID[c["id"].(string)]
		if !ok {
			return nil, MachineryError{fmt.Sprintf("no trace for case %v", c["id"])}
		}
		out = append(out, t)
	}
	return out, nil
}

func executeShard(env *Env, bin string, cases []Case, budget time.Duration, tag string, extraEnv []string) ([]Case, error) {
	in := filepath.Join(env.Tmp, "cases-"+tag+".ndjson")
	out := filepath.Join(env.Tmp, "traces-"+tag+".ndjson")
	prog := filepath.Join(env.Tmp, "progress-"+tag)
	os.Remove(out)
	if err := writeNDJSON(in, cases); err != nil {
		return nil, err
	}
	start := 0
	for attempt := 0; start < len(cases); attempt++ {
		if attempt > len(cases)+2 {
			return nil, MachineryError{"driver keeps dying: " + tag}
		}
		os.WriteFile(prog, []byte("-1"), 0o644)
		cmd := exec.Command(bin, "-in", in, "-out", out, "-progress", prog, "-start", strconv.Itoa(start), "-budget", budget.String())
		var stderr bytes.Buffer
		cmd.Stderr = &stderr
		cmd.Stdout = &stderr
		cmd.Env = append(os.Environ(), extraEnv...)
		err := cmd.Run()
		if err == nil {
			break
		}
		code := -1
		if ee, ok := err.(*exec.ExitError); ok {
			code = ee.ExitCode()
		}
		if code == 4 {
			return nil, MachineryError{"driver error: " + stderr.String()}
		}
		pb, _ := os.ReadFile(prog)
		cur, perr := strconv.Atoi(strings.TrimSpace(string(pb)))
		if perr != nil || cur < start {
			return nil, MachineryError{fmt.Sprintf("driver died before starting a case (status %d): %s", code, tail(stderr.String(), 2000))}
		}
		if code != 3 { // crash outside the case's goroutine: the driver could not write the trace
			traces, _ := readNDJSON(out)
			have := false
			for _, t := range traces {
				if t["id"] == cases[cur]["id"] {
					have = true
				}
			}
			if !have {
				c := Case{}
				for k, v := range cases[cur] {
					c[k] = v
				}
				c["ev"] = []any{map[string]any{"op": "crash", "msg": "process died: " + firstLine(stderr.String()), "stack": tail(stderr.String(), 3000)}}
				f, _ := os.OpenFile(out, os.O_APPEND|os.O_CREATE|os.O_WRONLY, 0o644)
				b, _ := json.Marshal(c)
				f.Write(append(b, '\n'))
				f.Close()
			}
		}
		start = cur + 1
	}
	traces, err := readNDJSON(out)
	if err != nil {
		return nil, MachineryError{"cannot read traces: " + err.Error()}
	}
	os.Remove(in)
	os.Remove(out)
	os.Remove(prog)
	return traces, nil
}

func tail(s string, n int) string {
	if len(s) > n {
		return s[len(s)-n:]
	}
	return s
}

func firstLine(s string) string {
	for _, l := range strings.Split(s, "\n") {
		if strings.TrimSpace(l) != "" {
			if len(l) > 300 {
				l = l[:300]
			}
			return l
		}
	}
	return ""
}

// Validate runs the TLA+ trace specification over the traces (sharded, several JVMs in parallel)
// and returns the rejected steps. The number of events TLC consumed must match the number of
// events recorded, otherwise the machinery is broken (exit 2), not the code.
func Validate(env *Env, module string, traces []Case, tag string) ([]Bad, TLCStats, error) {
	return ValidatePer(env, module, traces, tag, 400)
}

// ValidatePer is Validate with a bound on the number of traces per shard.
func ValidatePer(env *Env, module string, traces []Case, tag string, per int) ([]Bad, TLCStats, error) {
	var total TLCStats
	if len(traces) == 0 {
		return nil, total, nil
	}
	// shards are sized by the volume of the traces (white-box events make some traces a thousand times
	// larger than others), not only by their number, and filled largest first into the lightest shard
	sizes := make([]int, len(traces))
	totalBytes := 0
	for i, t := range traces {
		b, _ := json.Marshal(t)
		sizes[i] = len(b) + 200
		totalBytes += sizes[i]
	}
	nshard := (len(traces) + per - 1) / per
	if bySize := totalBytes/(3<<20) + 1; bySize > nshard {
		nshard = bySize
	}
	if nshard > 16 {
		nshard = 16
	}
	if nshard > len(traces) {
		nshard = len(traces)
	}
	order := make([]int, len(traces))
	for i := range order {
		order[i] = i
	}
	sort.SliceStable(order, func(a, b int) bool { return sizes[order[a]] > sizes[order[b]] })
	shards := make([][]Case, nshard)
	load := make([]int, nshard)
	for _, i := range order {
		best := 0
		for k := 1; k < nshard; k++ {
			if load[k] < load[best] {
				best = k
			}
		}
		shards[best] = append(shards[best], traces[i])
		load[best] += sizes[i]
	}
	bads := make([][]Bad, nshard)
	stats := make([]TLCStats, nshard)
	errs := make([]error, nshard)
	sem := make(chan struct{}, 12)
	var wg sync.WaitGroup
	for si := range shards {
		wg.Add(1)
		go func(si int) {
			defer wg.Done()
			sem <- struct{}{}
			defer func() { <-sem }()
			bads[si], stats[si], errs[si] = validateShard(env, module, shards[si], fmt.Sprintf("%s-%d", tag, si))
		}(si)
	}
	wg.Wait()
	var all []Bad
	for si := range shards {
		if errs[si] != nil {
			return nil, total, errs[si]
		}
		all = append(all, bads[si]...)
		total.Generated += stats[si].Generated
		total.Distinct += stats[si].Distinct
		total.Seconds += stats[si].Seconds
	}
	return all, total, nil
}

func countEvents(t Case) int {
	l, _ := t["ev"].([]any)
	if l == nil {
		if l2, ok := t["ev"].([]map[string]any); ok {
			return len(l2)
		}
	}
	return len(l)
}

func validateShard(env *Env, module string, traces []Case, tag string) ([]Bad, TLCStats, error) {
	in := filepath.Join(env.Tmp, "vtrace-"+tag+".ndjson")
	out := filepath.Join(env.Tmp, "vout-"+tag+".json")
	// round-trip through JSON so that event counting sees plain []any
	if err := writeNDJSON(in, traces); err != nil {
		return nil, TLCStats{}, err
	}
	norm, _ := readNDJSON(in)
	nev := 0
	for _, t := range norm {
		nev += countEvents(t)
	}
	os.Remove(out)
	cfg := module + ".cfg"
	if raw, err := os.ReadFile(filepath.Join(env.SpecDir, cfg)); err == nil && bytes.Contains(raw, []byte("@MAXN@")) {
		// the constant N of a mechanism-level trace module: the largest variable count of the searches in this shard
		maxN := 1
		for _, t := range norm {
			if v, ok := t["n"].(float64); ok && int(v) > maxN {
				maxN = int(v)
			}
		}
		cfg = fmt.Sprintf("%s-%s.cfg", module, tag)
		os.WriteFile(filepath.Join(env.SpecDir, cfg), bytes.ReplaceAll(raw, []byte("@MAXN@"), []byte(strconv.Itoa(maxN))), 0o644)
	}
	run := TLCRun{Dir: env.SpecDir, Module: module, Cfg: cfg, Workers: 1, XmxMB: 3000,
		Timeout: 20 * time.Minute, Env: []string{"VERIF_TRACE=" + in, "VERIF_OUT=" + out},
		Meta: filepath.Join(env.Tmp, "meta-"+tag)}
	st, err := run.Run()
	if err != nil {
		return nil, st, MachineryError{err.Error()}
	}
	if !st.OK {
		return nil, st, MachineryError{fmt.Sprintf("trace specification %s reported %q (it must be total):\n%s", module, st.Violated, tail(st.Output, 3000))}
	}
	b, err := os.ReadFile(out)
	if err != nil {
		return nil, st, MachineryError{fmt.Sprintf("trace specification %s wrote no verdict: %v\n%s", module, err, tail(st.Output, 2000))}
	}
	var verdict struct {
		Cases  int     `json:"cases"`
		Events int     `json:"events"`
		Bad    [][]any `json:"bad"`
	}
	if err := json.Unmarshal(b, &verdict); err != nil {
		return nil, st, MachineryError{"unreadable verdict: " + err.Error() + ": " + string(b)}
	}
	if verdict.Cases != len(traces) || verdict.Events != nev {
		return nil, st, MachineryError{fmt.Sprintf("trace specification %s consumed %d cases / %d events, recorded %d / %d", module, verdict.Cases, verdict.Events, len(traces), nev)}
	}
	var res []Bad
	for _, x := range verdict.Bad {
		if len(x) != 3 {
			continue
		}
		id, _ := x[0].(string)
		ei, _ := x[1].(float64)
		why, _ := x[2].(string)
		res = append(res, Bad{id, int(ei), why})
	}
	os.Remove(in)
	os.Remove(out)
	return res, st, nil
}

// Hash of an input case (everything but its id), for distinct counting and replay file names.
func caseHash(c Case) string {
	m := Case{}
	for k, v := range c {
		if k != "id" {
			m[k] = v
		}
	}
	b, _ := json.Marshal(m)
	h := sha1.Sum(b)
	return hex.EncodeToString(h[:8])
}

func sortedKeys(m map[string]int) []string {
	ks := make([]string, 0, len(m))
	for k := range m {
		ks = append(ks, k)
	}
	sort.Strings(ks)
	return ks
}
