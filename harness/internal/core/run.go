package core

import (
	"encoding/json"
	"fmt"
	"os"
	"os/exec"
	"path/filepath"
	"sort"
	"strings"
	"sync"
	"time"
)

// Finding is an entry of known_findings.json.
type Finding struct {
	Property string `json:"property"`
	Status   string `json:"status"` // "open" or "fixed"
	Trigger  string `json:"trigger,omitempty"`
	Commit   string `json:"commit,omitempty"`
	What     string `json:"what"`
	Witness  Case   `json:"witness,omitempty"`
}

func LoadFindings(root string) ([]Finding, error) {
	b, err := os.ReadFile(filepath.Join(root, "known_findings.json"))
	if err != nil {
		if os.IsNotExist(err) {
			return nil, nil
		}
		return nil, err
	}
	var f struct {
		Findings []Finding `json:"findings"`
	}
	if err := json.Unmarshal(b, &f); err != nil {
		return nil, err
	}
	return f.Findings, nil
}

func AssignIDs(prefix string, cases []Case) {
	for i, c := range cases {
		c["id"] = fmt.Sprintf("%s%d", prefix, i)
	}
}

// splitWhy separates "kf:<trigger>:<why>" tags produced by a named deviation of a trace spec.
func splitWhy(why string) (trigger, rest string) {
	if strings.HasPrefix(why, "kf:") {
		p := strings.SplitN(why, ":", 3)
		if len(p) == 3 {
			return p[1], p[2]
		}
	}
	return "", why
}

// Run executes the whole decision procedure of chk and returns the process exit status.
func Run(root string, chk *Check, tier string, seed int64) int {
	t0 := time.Now()
	env, err := NewEnv(root, tier, seed)
	if err != nil {
		fmt.Println("ERROR:", err)
		return 2
	}
	defer env.Close()
	res := &Result{DesignStats: map[string]TLCStats{}, Nontrivial: map[string]bool{}, Cov: map[string]int{}, Known: map[string]int{}}
	code, err := run(env, chk, res)
	if err != nil {
		fmt.Println("ERROR (machinery, not a verdict):", err)
		writeEvidence(env, chk, res, time.Since(t0), err.Error())
		return 2
	}
	if werr := writeEvidence(env, chk, res, time.Since(t0), ""); werr != nil {
		fmt.Println("ERROR: cannot write evidence:", werr)
		return 2
	}
	return code
}

func run(env *Env, chk *Check, res *Result) (int, error) {
	findings, err := LoadFindings(env.Root)
	if err != nil {
		return 2, MachineryError{"known_findings.json: " + err.Error()}
	}
	open := map[string]Finding{}
	for _, f := range findings {
		if f.Property == chk.ID && f.Status == "open" {
			open[f.Trigger] = f
		}
	}
	// 1. rebuild the driver from /repo's working tree
	env.Vdrive, err = BuildDriver(env, false)
	if err != nil {
		return 2, err
	}
	if chk.NeedRace {
		env.Race, err = BuildDriver(env, true)
		if err != nil {
			return 2, err
		}
	}
	if chk.NeedCLI {
		if err := buildCLI(env); err != nil {
			return 2, err
		}
	}
	env.Logf("driver rebuilt from /repo (tag verif)")

	// 2. design-level model checking, emitting behaviours
	var cases []Case
	// the TLC runs of the selected configurations are independent: up to three at a time; their results
	// are then processed in the declared order (the case generators draw from one seeded source)
	var selected []Design
	for _, d := range chk.Designs {
		if d.Tier != "" && d.Tier != env.Tier {
			continue
		}
		if os.Getenv("VERIF_DEV_SKIP_DESIGN") != "" { // development aid only, never set by registered commands
			continue
		}
		selected = append(selected, d)
	}
	type designResult struct {
		st  TLCStats
		err error
	}
	results := make([]designResult, len(selected))
	sem := make(chan struct{}, 3)
	var wg sync.WaitGroup
	for di, d := range selected {
		emit := filepath.Join(env.Tmp, "emit-"+d.Name+".ndjson")
		os.Remove(emit)
		r := TLCRun{Dir: env.SpecDir, Module: d.Module, Cfg: d.Cfg, Workers: d.Workers, XmxMB: d.XmxMB, Timeout: d.Timeout,
			Coverage: d.Coverage, Env: []string{"VERIF_EMIT=" + emit}, Simulate: d.Simulate, Depth: d.Depth, Seed: env.Seed,
			Meta: filepath.Join(env.Tmp, fmt.Sprintf("meta-design-%d", di))}
		if r.Workers == 0 {
			r.Workers = 16
		}
		if r.XmxMB == 0 {
			r.XmxMB = 8000
		}
		wg.Add(1)
		go func(di int, r TLCRun, d Design) {
			defer wg.Done()
			sem <- struct{}{}
			defer func() { <-sem }()
			if d.Engine == "apalache" {
				st, err := ApalacheRun(env.SpecDir, d.Module, d.Cfg, d.Inv, d.Depth, r.XmxMB, r.Timeout, filepath.Join(env.Tmp, fmt.Sprintf("apalache-%d", di)))
				results[di] = designResult{st, err}
				return
			}
			st, err := r.Run()
			results[di] = designResult{st, err}
		}(di, r, d)
	}
	wg.Wait()
	for di, d := range selected {
		emit := filepath.Join(env.Tmp, "emit-"+d.Name+".ndjson")
		st, err := results[di].st, results[di].err
		if err != nil {
			return 2, MachineryError{err.Error()}
		}
		res.DesignStats[d.Name] = st
		res.States += st.Distinct
		res.Transitions += st.Generated
		if d.ExpectViolation != "" {
			if st.Violated != d.ExpectViolation {
				return 2, MachineryError{fmt.Sprintf("design %s: the as-coded variant was expected to violate %s but TLC reported %q", d.Name, d.ExpectViolation, st.Violated)}
			}
			env.Logf("design %s: as-coded variant violates %s as expected (%d states)", d.Name, d.ExpectViolation, st.Distinct)
		} else if !st.OK {
			return 2, MachineryError{fmt.Sprintf("design %s (%s/%s): TLC reports %q on the specification itself — the specification is wrong or models a defect; not a verdict about the code:\n%s", d.Name, d.Module, d.Cfg, st.Violated, tail(st.Output, 4000))}
		} else {
			if d.Engine == "apalache" {
				env.Logf("design %s: Apalache reports no error for invariant %s on every execution of length %d, %.1fs", d.Name, d.Inv, d.Depth, st.Seconds)
			} else {
				env.Logf("design %s: %d distinct states, %d generated, depth %d, %.1fs", d.Name, st.Distinct, st.Generated, st.Depth, st.Seconds)
			}
		}
		for _, a := range d.MustCover {
			if st.Coverage[a] == 0 {
				return 2, MachineryError{fmt.Sprintf("design %s: action %s was never taken (vacuous model)", d.Name, a)}
			}
		}
		if d.ToCases != nil {
			em, err := ReadEmitted(emit)
			if err != nil {
				return 2, MachineryError{err.Error()}
			}
			cs := d.ToCases(env, em)
			AssignIDs(d.Name+"-", cs)
			env.Logf("design %s: %d behaviours emitted -> %d cases", d.Name, len(em), len(cs))
			res.Cov["cases.from-spec."+d.Name] = len(cs)
			cases = append(cases, cs...)
		}
		os.Remove(emit)
	}
	// 3. seeded random cases and the regression corpus (witnesses of fixed and open findings)
	if chk.Cases != nil {
		cs := chk.Cases(env)
		AssignIDs("rnd-", cs)
		res.Cov["cases.random"] = len(cs)
		cases = append(cases, cs...)
	}
	var corpus []Case
	for _, f := range findings {
		if f.Property == chk.ID && f.Witness != nil {
			c := Case{}
			for k, v := range f.Witness {
				c[k] = v
			}
			corpus = append(corpus, c)
		}
	}
	AssignIDs("corpus-", corpus)
	cases = append(cases, corpus...)

	if len(cases) > 0 && chk.TraceModule != "" {
		follow, code, err := pipeline(env, chk, res, cases, open, "main")
		if err != nil || code != 0 {
			return code, err
		}
		if len(follow) > 0 {
			AssignIDs("amp-", follow)
			res.Cov["cases.amplified"] = len(follow)
			env.Logf("%d follow-up cases derived from diagnostic divergences (divergence-directed amplification)", len(follow))
			if _, code, err := pipeline(env, chk, res, follow, open, "amp"); err != nil || code != 0 {
				return code, err
			}
		}
	}
	if chk.Extra != nil {
		if err := chk.Extra(env, res); err != nil {
			return 2, err
		}
	}
	for k, v := range env.Counters {
		res.Cov[k] += v
	}
	for _, k := range chk.Require {
		if res.Cov[k] == 0 {
			return 2, MachineryError{fmt.Sprintf("vacuity gate: coverage counter %q is 0 in this run", k)}
		}
	}
	for trig, n := range res.Known {
		f := open[trig]
		fmt.Printf("KNOWN-FINDING: property=%s %s (trigger %s, %d case(s) in this run)\n", chk.ID, f.What, trig, n)
	}
	for _, n := range res.Notes {
		fmt.Println("NOTE", n)
	}
	if len(res.Violations) > 0 {
		seen := map[string]bool{}
		for _, v := range res.Violations {
			if seen[v.Replay] {
				continue
			}
			seen[v.Replay] = true
			fmt.Printf("VIOLATION property=%s replay=%s\n", chk.ID, v.Replay)
			fmt.Printf("  clause: %s\n", v.Why)
		}
		return 1, nil
	}
	env.Logf("%s %s: held on everything explored (%d cases, %d trace events, %d design states)", chk.ID, env.Tier, res.Evaluations, res.TraceEvents, res.States)
	return 0, nil
}

// buildCLI builds the gophersat executable from /repo (no build tag) for the cli driver.
func buildCLI(env *Env) error {
	bin := filepath.Join(env.Tmp, "gophersat")
	cmd := exec.Command("go", "build", "-o", bin, ".")
	cmd.Dir = "/repo"
	if alt := os.Getenv("VERIF_DEV_REPO"); alt != "" {
		cmd.Dir = alt
	}
	cmd.Env = goEnv()
	if b, err := cmd.CombinedOutput(); err != nil {
		return MachineryError{fmt.Sprintf("cannot build the gophersat executable from /repo: %v\n%s", err, b)}
	}
	os.Setenv("VERIF_GOPHERSAT", bin)
	return nil
}

// pipeline = execute, validate, classify.
func pipeline(env *Env, chk *Check, res *Result, cases []Case, open map[string]Finding, tag string) ([]Case, int, error) {
	var follow []Case
	traces, err := Execute(env, env.Vdrive, cases, chk.Budget, tag)
	if err != nil {
		return nil, 2, err
	}
	env.Logf("%d cases executed on the real code", len(traces))
	for _, t := range traces { // a failure of the harness itself is never a verdict
		if evl, ok := t["ev"].([]any); ok {
			for _, e := range evl {
				if em, ok := e.(map[string]any); ok && em["op"] == "crash" {
					if msg, _ := em["msg"].(string); strings.HasPrefix(msg, "harness:") {
						return nil, 2, MachineryError{fmt.Sprintf("the driver failed on case %v: %s", t["id"], msg)}
					}
				}
			}
		}
	}
	byID := map[string]Case{}
	inByID := map[string]Case{}
	for i, t := range traces {
		byID[t["id"].(string)] = t
		inByID[t["id"].(string)] = cases[i]
	}
	bad, st, err := ValidateByModule(env, chk.TraceModule, traces, tag)
	if err != nil {
		return nil, 2, err
	}
	res.States += st.Distinct
	res.Transitions += st.Generated
	env.Logf("TLC validated %d traces against %s: %d states, %d rejected steps", len(traces), chk.TraceModule, st.Distinct, len(bad))
	badCases := map[string][]Bad{}
	for _, b := range bad {
		if strings.HasPrefix(b.Why, "harness:") { // the trace specification found the input of the case inconsistent
			return nil, 2, MachineryError{fmt.Sprintf("case %s event %d: %s", b.Case, b.Ev, b.Why)}
		}
		if strings.HasPrefix(b.Why, "diag:") {
			if len(res.Notes) < 20 {
				res.Notes = append(res.Notes, fmt.Sprintf("divergence %s at case %s event %d (diagnostic, not a property clause)", b.Why, b.Case, b.Ev))
			}
			kind := b.Why
			if p := strings.SplitN(b.Why, ":", 3); len(p) == 3 {
				kind = p[0] + ":" + p[1]
			}
			res.Cov["diag."+kind]++
			if dir := os.Getenv("VERIF_DEV_KEEP_DIAG"); dir != "" && res.Cov["diag."+kind] <= 5 { // development aid
				rec := map[string]any{"property": chk.ID, "trace_module": chk.TraceModule, "clause": b.Why, "event": b.Ev, "case": inByID[b.Case], "trace": byID[b.Case]}
				bb, _ := json.MarshalIndent(rec, "", " ")
				os.MkdirAll(dir, 0o755)
				os.WriteFile(filepath.Join(dir, fmt.Sprintf("%s-diag-%s.json", chk.ID, b.Case)), bb, 0o644)
			}
			if chk.Amplify != nil && tag == "main" && len(follow) < 3000 {
				follow = append(follow, chk.Amplify(env, inByID[b.Case], byID[b.Case], strings.TrimPrefix(b.Why, "diag:"))...)
			}
			continue
		}
		badCases[b.Case] = append(badCases[b.Case], b)
	}
	// mechanism-level pass: recorded searches matched action by action against the design module
	if chk.Mech != nil && os.Getenv("VERIF_DEV_SKIP_MECH") == "" {
		var mt []Case
		for _, t := range traces {
			if p := chk.Mech.Project(t); p != nil {
				mt = append(mt, p)
			}
		}
		if limit := env.Pick(chk.Mech.Quick, chk.Mech.Thorough); limit > 0 && len(mt) > limit {
			// the searches with the most events first (conflicts, learning, restarts), the trivial ones last
			sort.SliceStable(mt, func(a, b int) bool { return countEvents(mt[a]) > countEvents(mt[b]) })
			mt = mt[:limit]
		}
		if len(mt) > 0 {
			mb, mst, err := ValidatePer(env, chk.Mech.Module, mt, tag+"-mech", 80)
			if err != nil {
				return nil, 2, err
			}
			res.States += mst.Distinct
			res.Transitions += mst.Generated
			nmev := 0
			for _, t := range mt {
				nmev += countEvents(t)
			}
			res.Cov["mech.searches"] += len(mt)
			res.Cov["mech.events"] += nmev
			res.Cov["mech.accepted"] += len(mt) - len(mb)
			env.Logf("TLC matched %d recorded searches (%d events) against the actions of %s: %d states, %d not a behaviour of the mechanism model", len(mt), nmev, chk.Mech.Module, mst.Distinct, len(mb))
			for _, b := range mb {
				res.Cov["diag."+b.Why]++
				if len(res.Notes) < 20 {
					res.Notes = append(res.Notes, fmt.Sprintf("divergence %s at case %s search event %d (mechanism-level diagnostic, not a property clause)", b.Why, b.Case, b.Ev))
				}
				if dir := os.Getenv("VERIF_DEV_KEEP_DIAG"); dir != "" && res.Cov["diag."+b.Why] <= 5 { // development aid
					rec := map[string]any{"property": chk.ID, "trace_module": chk.Mech.Module, "clause": b.Why, "event": b.Ev, "case": inByID[b.Case], "trace": byID[b.Case]}
					bb, _ := json.MarshalIndent(rec, "", " ")
					os.MkdirAll(dir, 0o755)
					os.WriteFile(filepath.Join(dir, fmt.Sprintf("%s-mech-%s.json", chk.ID, b.Case)), bb, 0o644)
				}
				if chk.Amplify != nil && tag == "main" && len(follow) < 3000 {
					follow = append(follow, chk.Amplify(env, inByID[b.Case], byID[b.Case], b.Why)...)
				}
			}
		}
	}
	res.Evaluations += len(traces)
	for _, t := range traces {
		id := t["id"].(string)
		res.TraceEvents += countEvents(t)
		if _, rejected := badCases[id]; !rejected {
			res.Accepted++
		}
		nontriv := true
		if chk.Cover != nil {
			nontriv = chk.Cover(t, res.Cov)
		}
		if nontriv {
			res.Nontrivial[caseHash(inByID[id])] = true
		}
	}
	// samples: the first few traces, trimmed
	for i := 0; i < len(traces) && len(res.Samples) < 3; i += 1 + len(traces)/3 {
		res.Samples = append(res.Samples, trim(traces[i]))
	}
	if len(badCases) == 0 {
		return follow, 0, nil
	}
	// classify: reproduce each rejected case alone (time-outs with 10x budget), then look it up
	var again []Case
	for id := range badCases {
		c := Case{}
		for k, v := range inByID[id] {
			c[k] = v
		}
		again = append(again, c)
	}
	budget := chk.Budget
	if budget == 0 {
		budget = 5 * time.Second
	}
	if len(again) > 400 {
		// reproduce a bounded number; the others are reported as belonging to the same run
		again = again[:400]
	}
	re, err := Execute(env, env.Vdrive, again, 10*budget, tag+"-re")
	if err != nil {
		return nil, 2, err
	}
	bad2, _, err := ValidateByModule(env, chk.TraceModule, re, tag+"-re")
	if err != nil {
		return nil, 2, err
	}
	reBad := map[string][]Bad{}
	for _, b := range bad2 {
		if !strings.HasPrefix(b.Why, "diag:") {
			reBad[b.Case] = append(reBad[b.Case], b)
		}
	}
	reTrace := map[string]Case{}
	for _, t := range re {
		reTrace[t["id"].(string)] = t
	}
	unreproduced := 0
	os.MkdirAll(filepath.Join(env.Root, "replays"), 0o755)
	for _, c := range again {
		id := c["id"].(string)
		bs, ok := reBad[id]
		if !ok {
			unreproduced++
			if len(res.Notes) < 20 {
				res.Notes = append(res.Notes, fmt.Sprintf("case %s was rejected (%s) but accepted when re-executed alone with a 10x budget: not counted", id, badCases[id][0].Why))
			}
			continue
		}
		trig, why := splitWhy(bs[0].Why)
		if trig != "" {
			if _, isOpen := open[trig]; isOpen {
				res.Known[trig]++
				continue
			}
		}
		h := caseHash(inByID[id])
		path := filepath.Join("replays", fmt.Sprintf("%s-%s.json", chk.ID, h))
		rec := map[string]any{"property": chk.ID, "trace_module": chk.TraceModule, "clause": why, "event": bs[0].Ev,
			"case": inByID[id], "trace": reTrace[id]}
		b, _ := json.MarshalIndent(rec, "", " ")
		os.WriteFile(filepath.Join(env.Root, path), b, 0o644)
		res.Violations = append(res.Violations, Violation{Why: fmt.Sprintf("%s (case %s, event %d)", why, id, bs[0].Ev), Case: inByID[id], Trace: reTrace[id], Replay: path})
	}
	// A rejection that does not reproduce when the case is executed alone with a 10x budget (a time-out
	// under load, typically) is not behaviour of the code that can be shown again: it is reported as a
	// note and counted in the evidence, never as a violation and never as a failure of the run.
	res.Cov["rejections.unreproduced"] += unreproduced
	return follow, 0, nil
}

// validateByModule validates each trace with the trace specification its case names ("tm"),
// the check's own module by default.
func ValidateByModule(env *Env, def string, traces []Case, tag string) ([]Bad, TLCStats, error) {
	groups := map[string][]Case{}
	var order []string
	for _, t := range traces {
		m, _ := t["tm"].(string)
		if m == "" {
			m = def
		}
		if _, ok := groups[m]; !ok {
			order = append(order, m)
		}
		groups[m] = append(groups[m], t)
	}
	var all []Bad
	var total TLCStats
	for _, m := range order {
		b, st, err := Validate(env, m, groups[m], tag+"-"+m)
		if err != nil {
			return nil, total, err
		}
		all = append(all, b...)
		total.Generated += st.Generated
		total.Distinct += st.Distinct
		total.Seconds += st.Seconds
	}
	return all, total, nil
}

func trim(t Case) any {
	b, _ := json.Marshal(t)
	if len(b) <= 1500 {
		return t
	}
	return string(b[:1500]) + "…"
}

// Replay re-executes the case of a replay file on the current tree and validates it again.
func Replay(root, path string, lookup func(id string) *Check) int {
	b, err := os.ReadFile(path)
	if err != nil {
		fmt.Println("ERROR:", err)
		return 2
	}
	var rec struct {
		Property    string `json:"property"`
		TraceModule string `json:"trace_module"`
		Case        Case   `json:"case"`
	}
	if err := json.Unmarshal(b, &rec); err != nil {
		fmt.Println("ERROR:", err)
		return 2
	}
	env, err := NewEnv(root, "quick", 1)
	if err != nil {
		fmt.Println("ERROR:", err)
		return 2
	}
	defer env.Close()
	env.Vdrive, err = BuildDriver(env, false)
	if err != nil {
		fmt.Println("ERROR:", err)
		return 2
	}
	if chk := lookup(rec.Property); chk != nil && chk.NeedCLI {
		if err := buildCLI(env); err != nil {
			fmt.Println("ERROR:", err)
			return 2
		}
	}
	if kind, _ := rec.Case["drv"].(string); kind == "conc" {
		fmt.Println("ERROR: a concurrent group is not replayable deterministically; re-run the check (bin/vcheck " + rec.Property + ") to look for it again")
		return 2
	}
	tr, err := Execute(env, env.Vdrive, []Case{rec.Case}, 50*time.Second, "replay")
	if err != nil {
		fmt.Println("ERROR:", err)
		return 2
	}
	bad, _, err := ValidateByModule(env, rec.TraceModule, tr, "replay")
	if err != nil {
		fmt.Println("ERROR:", err)
		return 2
	}
	out, _ := json.MarshalIndent(tr[0], "", " ")
	fmt.Println(string(out))
	code := 0
	for _, x := range bad {
		if strings.HasPrefix(x.Why, "diag:") {
			fmt.Printf("NOTE divergence %s at event %d\n", x.Why, x.Ev)
			continue
		}
		fmt.Printf("rejected: event %d clause %s\n", x.Ev, x.Why)
		code = 1
	}
	if code == 1 {
		fmt.Printf("VIOLATION property=%s replay=%s\n", rec.Property, path)
	} else {
		fmt.Println("accepted: the recorded case is now a behaviour of the specification")
	}
	return code
}
