package core

import (
	"encoding/json"
	"fmt"
	"time"
)

// A Corruption changes one recorded field of an executed trace; the trace specification must then
// reject the trace at that step. It returns false if the trace has no such field.
type Corruption struct {
	Name  string
	Apply func(tr Case) bool
	// Partial: the corruption does not always change the truth of the recorded step (a learned clause
	// with a literal dropped may still be a consequence); at least half of the corrupted traces must
	// then be rejected, otherwise all of them.
	Partial bool
}

// SelfTest demonstrates the binding between the trace specifications and the recorded executions:
// for a check, it executes a few cases, verifies that TLC accepts the traces as recorded, then
// corrupts one recorded field at a time and verifies that TLC rejects each corrupted trace.
func SelfTest(root string, chk *Check, corruptions []Corruption) int {
	env, err := NewEnv(root, "quick", 12345)
	if err != nil {
		fmt.Println("ERROR:", err)
		return 2
	}
	defer env.Close()
	env.Vdrive, err = BuildDriver(env, false)
	if err != nil {
		fmt.Println("ERROR:", err)
		return 2
	}
	if chk.NeedCLI {
		if err := buildCLI(env); err != nil {
			fmt.Println("ERROR:", err)
			return 2
		}
	}
	cases := chk.Cases(env)
	if len(cases) > 300 {
		cases = cases[:300]
	}
	AssignIDs("st-", cases)
	traces, err := Execute(env, env.Vdrive, cases, 10*time.Second, "selftest")
	if err != nil {
		fmt.Println("ERROR:", err)
		return 2
	}
	bad, _, err := ValidateByModule(env, chk.TraceModule, traces, "selftest")
	if err != nil {
		fmt.Println("ERROR:", err)
		return 2
	}
	rejected := map[string]bool{}
	for _, b := range bad {
		rejected[b.Case] = true
	}
	failures := 0
	for _, cor := range corruptions {
		var corrupted []Case
		for _, t := range traces {
			if rejected[t["id"].(string)] {
				continue
			}
			var cp Case
			b, _ := json.Marshal(t)
			json.Unmarshal(b, &cp)
			if cor.Apply(cp) {
				corrupted = append(corrupted, cp)
			}
			if len(corrupted) >= 25 {
				break
			}
		}
		if len(corrupted) == 0 {
			fmt.Printf("selftest %s/%s: no trace has the field to corrupt (skipped)\n", chk.ID, cor.Name)
			continue
		}
		bad2, _, err := ValidateByModule(env, chk.TraceModule, corrupted, "selftest-"+cor.Name)
		if err != nil {
			fmt.Println("ERROR:", err)
			return 2
		}
		rej := map[string]bool{}
		for _, b := range bad2 {
			rej[b.Case] = true
		}
		missed := 0
		for _, t := range corrupted {
			if !rej[t["id"].(string)] {
				missed++
			}
		}
		if missed > 0 && !(cor.Partial && 2*missed <= len(corrupted)) {
			failures++
			fmt.Printf("selftest %s/%s: FAILED - %d of %d corrupted traces were accepted\n", chk.ID, cor.Name, missed, len(corrupted))
		} else {
			fmt.Printf("selftest %s/%s: ok - %d of %d corrupted traces rejected\n", chk.ID, cor.Name, len(corrupted)-missed, len(corrupted))
		}
	}
	if failures > 0 {
		return 1
	}
	return 0
}
