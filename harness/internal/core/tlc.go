package core

import (
	"bufio"
	"bytes"
	"context"
	"encoding/json"
	"fmt"
	"os"
	"os/exec"
	"path/filepath"
	"regexp"
	"strconv"
	"strings"
	"time"
)

const tlaCP = "/opt/veriftools/tla/tla2tools.jar:/opt/veriftools/tla/CommunityModules-deps.jar"

// TLCStats is what is read back from a TLC run.
type TLCStats struct {
	Generated int            `json:"generated"`
	Distinct  int            `json:"distinct"`
	Depth     int            `json:"depth"`
	Seconds   float64        `json:"seconds"`
	Coverage  map[string]int `json:"coverage,omitempty"`
	Output    string         `json:"-"`
	OK        bool           `json:"ok"`
	Violated  string         `json:"violated,omitempty"` // name of a violated invariant/property, if any
}

var (
	reStates = regexp.MustCompile(`(\d+) states generated, (\d+) distinct states found`)
	reDepth  = regexp.MustCompile(`depth of the complete state graph search is (\d+)`)
	reInv    = regexp.MustCompile(`Invariant (\S+) is violated`)
	reProp   = regexp.MustCompile(`(Temporal properties were violated|Action property (\S+) is violated|Deadlock reached)`)
	reCov    = regexp.MustCompile(`^<(\w+) line \d+, col \d+ to line \d+, col \d+ of module (\w+)>: (\d+):(\d+)`)
)

// TLCRun describes one invocation of TLC.
type TLCRun struct {
	Dir      string // working directory holding the modules (a scratch copy of spec/)
	Module   string
	Cfg      string
	Workers  int
	XmxMB    int
	Timeout  time.Duration
	Env      []string
	Coverage bool
	Simulate string // e.g. "num=1000" ; empty = exhaustive
	Depth    int
	Seed     int64
	Deque    bool
	Meta     string
}

// Run executes TLC and parses its summary. An error is returned only when TLC could not run to a
// verdict (crash, time-out, parse error): that is a failure of the machinery, never a violation.
func (r TLCRun) Run() (TLCStats, error) {
	var st TLCStats
	if r.Workers == 0 {
		r.Workers = 1
	}
	if r.XmxMB == 0 {
		r.XmxMB = 2048
	}
	if r.Timeout == 0 {
		r.Timeout = 10 * time.Minute
	}
	meta := r.Meta
	if meta == "" {
		meta = filepath.Join(r.Dir, "meta-"+r.Module+"-"+strconv.FormatInt(time.Now().UnixNano(), 36))
	}
	args := []string{"-XX:+UseParallelGC", fmt.Sprintf("-Xmx%dm", r.XmxMB), "-Xss256m"}
	if r.Deque {
		args = append(args, "-Dtlc2.tool.queue.IStateQueue=StateDeque")
	}
	args = append(args, "-cp", tlaCP, "tlc2.TLC", "-workers", strconv.Itoa(r.Workers), "-metadir", meta, "-nowarning")
	if r.Cfg != "" {
		args = append(args, "-config", r.Cfg)
	}
	if r.Coverage {
		args = append(args, "-coverage", "1")
	}
	if r.Simulate != "" {
		args = append(args, "-simulate", r.Simulate)
		if r.Depth > 0 {
			args = append(args, "-depth", strconv.Itoa(r.Depth))
		}
		args = append(args, "-seed", strconv.FormatInt(r.Seed, 10))
	}
	args = append(args, r.Module+".tla")
	ctx, cancel := context.WithTimeout(context.Background(), r.Timeout)
	defer cancel()
	cmd := exec.CommandContext(ctx, "java", args...)
	cmd.Dir = r.Dir
	cmd.Env = append(os.Environ(), r.Env...)
	var buf bytes.Buffer
	cmd.Stdout = &buf
	cmd.Stderr = &buf
	t0 := time.Now()
	err := cmd.Run()
	st.Seconds = time.Since(t0).Seconds()
	st.Output = buf.String()
	os.RemoveAll(meta)
	if ctx.Err() != nil {
		return st, fmt.Errorf("TLC %s/%s timed out after %v", r.Module, r.Cfg, r.Timeout)
	}
	if m := reStates.FindAllStringSubmatch(st.Output, -1); len(m) > 0 {
		last := m[len(m)-1]
		st.Generated, _ = strconv.Atoi(last[1])
		st.Distinct, _ = strconv.Atoi(last[2])
	}
	if m := reDepth.FindStringSubmatch(st.Output); m != nil {
		st.Depth, _ = strconv.Atoi(m[1])
	}
	if r.Coverage {
		st.Coverage = map[string]int{}
		sc := bufio.NewScanner(strings.NewReader(st.Output))
		for sc.Scan() {
			if m := reCov.FindStringSubmatch(sc.Text()); m != nil {
				n, _ := strconv.Atoi(m[3])
				st.Coverage[m[1]] += n
			}
		}
	}
	if m := reInv.FindStringSubmatch(st.Output); m != nil {
		st.Violated = m[1]
		return st, nil
	}
	if m := reProp.FindStringSubmatch(st.Output); m != nil {
		st.Violated = m[0]
		return st, nil
	}
	if strings.Contains(st.Output, "Model checking completed. No error has been found.") ||
		(r.Simulate != "" && err == nil) {
		st.OK = true
		return st, nil
	}
	tail := st.Output
	if len(tail) > 3000 {
		tail = tail[len(tail)-3000:]
	}
	return st, fmt.Errorf("TLC %s/%s did not reach a verdict (err=%v):\n%s", r.Module, r.Cfg, err, tail)
}

// ApalacheRun runs the symbolic model checker on an annotated module: bounded execution of the given
// length with one invariant. NoError = the invariant holds on every execution of that length for every
// value of the symbolic constants / initial states; Error = a counterexample exists.
func ApalacheRun(dir, module, cfg, inv string, length int, xmxMB int, timeout time.Duration, outDir string) (TLCStats, error) {
	var st TLCStats
	ctx, cancel := context.WithTimeout(context.Background(), timeout)
	defer cancel()
	cmd := exec.CommandContext(ctx, "apalache-mc", "check", "--config="+cfg, "--length="+strconv.Itoa(length), "--inv="+inv,
		"--out-dir="+outDir, "--write-intermediate=false", module+".tla")
	cmd.Dir = dir
	cmd.Env = append(os.Environ(), fmt.Sprintf("JVM_ARGS=-Xmx%dm", xmxMB))
	var buf bytes.Buffer
	cmd.Stdout, cmd.Stderr = &buf, &buf
	t0 := time.Now()
	err := cmd.Run()
	st.Seconds = time.Since(t0).Seconds()
	st.Output = buf.String()
	os.RemoveAll(outDir)
	if ctx.Err() != nil {
		return st, fmt.Errorf("apalache %s/%s timed out after %v", module, cfg, timeout)
	}
	switch {
	case strings.Contains(st.Output, "The outcome is: NoError"):
		st.OK = true
		st.Depth = length
		return st, nil
	case strings.Contains(st.Output, "The outcome is: Error"):
		st.Violated = inv
		return st, nil
	}
	tail := st.Output
	if len(tail) > 3000 {
		tail = tail[len(tail)-3000:]
	}
	return st, fmt.Errorf("apalache %s/%s did not reach a verdict (err=%v):\n%s", module, cfg, err, tail)
}

// ReadEmitted reads a file of cases emitted by a TLC run through CSVWrite("%1$s", <<ToJson(x)>>, f).
// Depending on the value, each line is either JSON or a JSON string holding JSON.
func ReadEmitted(path string) ([]map[string]any, error) {
	f, err := os.Open(path)
	if err != nil {
		if os.IsNotExist(err) {
			return nil, nil
		}
		return nil, err
	}
	defer f.Close()
	var res []map[string]any
	sc := bufio.NewScanner(f)
	sc.Buffer(make([]byte, 1<<20), 1<<28)
	for sc.Scan() {
		line := bytes.TrimSpace(sc.Bytes())
		if len(line) == 0 {
			continue
		}
		if line[0] == '"' {
			var s string
			if err := json.Unmarshal(line, &s); err != nil {
				return nil, fmt.Errorf("emitted line is not a JSON string: %v", err)
			}
			line = []byte(s)
		}
		var m map[string]any
		if err := json.Unmarshal(line, &m); err != nil {
			return nil, fmt.Errorf("emitted line is not a JSON object: %v: %.200s", err, line)
		}
		res = append(res, m)
	}
	return res, sc.Err()
}
