package core

import (
	"encoding/json"
	"os"
	"path/filepath"
	"time"
)

func writeEvidence(env *Env, chk *Check, res *Result, wall time.Duration, machineryErr string) error {
	samples := res.Samples
	if len(samples) == 0 {
		samples = []any{"no case was executed in this run"}
	}
	cov := map[string]any{
		"states":                        res.States,
		"transitions":                   res.Transitions,
		"traces_validated_against_impl": res.Accepted,
		"samples":                       samples,
		"evaluations":                   res.Evaluations,
		"distinct_nontrivial":           len(res.Nontrivial),
		"rule":                          chk.Rule,
		"trace_events":                  res.TraceEvents,
		"design_runs":                   res.DesignStats,
		"counters":                      res.Cov,
		"known_finding_hits":            res.Known,
		"exhaustive":                    false,
		"explanation": "states/transitions = TLC states of the design-level model checking runs plus the states of the trace-validation runs; " +
			"traces_validated_against_impl = executions of the real code (rebuilt from /repo with -tags verif) that TLC accepted as behaviours of the trace specification " + chk.TraceModule,
	}
	if machineryErr != "" {
		cov["machinery_error"] = machineryErr
	}
	ev := map[string]any{
		"property_id": chk.ID,
		"tier":        env.Tier,
		"seed":        env.Seed,
		"level":       "model_checking",
		"coverage":    cov,
		"assumptions": append([]string{
			"TLC 1.8.0 and the CommunityModules evaluate the TLA+ definitions correctly",
			"the Go drivers/renderers/projections of /verif/harness record calls and replies faithfully (they compute no expected values)",
		}, chk.Assumptions...),
		"wall_s":     wall.Seconds(),
		"violations": len(res.Violations),
	}
	b, err := json.MarshalIndent(ev, "", " ")
	if err != nil {
		return err
	}
	dir := filepath.Join(env.Root, "evidence")
	if os.Getenv("VERIF_DEV_REPO") != "" || os.Getenv("VERIF_DEV_SKIP_DESIGN") != "" {
		// development runs (another checkout, designs skipped) are not evidence about /repo
		dir = filepath.Join(env.Root, "evidence-dev")
	}
	os.MkdirAll(dir, 0o755)
	return os.WriteFile(filepath.Join(dir, chk.ID+".json"), b, 0o644)
}
